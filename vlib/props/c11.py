"""C11 - whitespace and redundant parentheses never change the parse."""
from .. import build, core, flow, gens, astproto
from ..core import hx, unhx
from . import progs

WS = [" ", "\t", "\r", "\n"]

def render_spans(t, PT, out, spans):
    """appends the minimal rendering of t to out (list of chars) and records (start, end) char spans of every
    complete subexpression (including parenthesised operands)"""
    def emit(s): out.extend(s)
    def sub(c, n, pos):
        need = progs.must_paren(c, n, pos, PT)
        if need: emit("(")
        render_spans(c, PT, out, spans)
        if need: emit(")")
    st = len(out)
    k = t[0]
    if k in ("lit", "ref"): emit(t[1])
    elif k == "un": emit(t[1] + " "); sub(t[2], t, "operand")
    elif k == "bin": sub(t[2], t, "left"); emit(" " + t[1] + " "); sub(t[3], t, "right")
    elif k == "nbin": sub(t[2], t, "left"); emit(" not " + t[1] + " "); sub(t[3], t, "right")
    elif k == "post": sub(t[1], t, "operand"); emit(" " + t[2])
    elif k == "tern": sub(t[1], t, "cond"); emit(" ? "); sub(t[2], t, "then"); emit(" : "); sub(t[3], t, "else")
    elif k == "call":
        emit(t[1] + "(")
        for i, a in enumerate(t[2]):
            if i: emit(", ")
            sub(a, t, "arg")
        emit(")")
    elif k == "list":
        emit("[")
        for i, a in enumerate(t[1]):
            if i: emit(", ")
            sub(a, t, "elem")
        emit("]")
    elif k == "map":
        emit("{")
        for i, (a, b) in enumerate(t[1]):
            if i: emit(", ")
            sub(a, t, "key"); emit(" : "); sub(b, t, "val")
        emit("}")
    spans.append((st, len(out), k))

class P:
    prop = "C11"
    rule = ("for accepted programs (random trees, minimal parentheses, statements joined by `;` or juxtaposed): every gap "
            "between tokens (located with the tokenizer hook's spans) rewritten with whitespace strings over {SP,TAB,CR,LF} "
            "(empty gaps may become non-empty, non-empty stay non-empty), and every complete subexpression wrapped in 1, 2 or 5 "
            "pairs of parentheses (also with no blank around them, and with every removable blank removed); programs under registered operators (word and symbolic, one name in two roles) with every atom parenthesised; oracle: the impl's AST of every variant equals its AST of the original. "
            "Non-trivial = distinct (program, variant) with >= 3 tokens.")
    assumptions = ["names are not operator words", "D19 (juxtaposed statements: parenthesising the first token of a statement that follows a name) is a known finding"]
    trusted_extra = ["hook verif_hooks::tokenize for token boundaries"]

    def generate(self, tier, rng):
        PT = progs.prec_table()
        infix, prefix, postfix, _ = gens.builtin_ops(build.table_path())
        opwords = set(n for n, *_ in infix) | set(prefix) | set(postfix)
        self.excluded = 0
        nprog = 600 if tier == "quick" else 40000
        bases = []
        intended = []
        A = ("ref", "a")
        crafted = [[("un", p, ("post", ("post", A, "++"), q))] for p in prefix for q in postfix] + \
                  [[("post", ("post", ("post", A, "++"), "--"), "++")], [("post", ("un", "-", ("post", A, "++")), "--")],
                   [("bin", "+", ("un", "-", ("post", ("post", A, "--"), "++")), ("post", ("post", ("lit", "1"), "++"), "++"))]] + \
                  [[("tern", ("bin", op, A, ("bin", "+", ("ref", "b"), ("lit", "1"))), ("ref", "c"), ("ref", "d"))] for op in ("=", "+=", "<<=", "||", "==", "in")] + \
                  [[("tern", ("bin", "=", A, ("bin", "=", ("ref", "b"), ("bin", ">", ("ref", "z"), ("lit", "3")))), ("lit", "1"), ("lit", "2"))],
                   [("bin", "=", A, ("tern", ("bin", "+", ("ref", "b"), ("lit", "1")), ("ref", "c"), ("ref", "d")))],
                   [("tern", ("un", "-", A), ("bin", "=", ("ref", "b"), ("lit", "1")), ("bin", "=", ("ref", "b"), ("lit", "2")))]]
        for k in range(nprog + len(crafted)):
            ts = crafted[k] if k < len(crafted) else progs.gen_stmts(rng, depth=rng.choice([2, 3, 4]))
            out, spans, stmt_starts = [], [], []
            juxt = rng.random() < 0.15
            for i, t in enumerate(ts):
                if i:
                    out.extend(" " if juxt else rng.choice([";", "; ", " ;"]))
                stmt_starts.append(len(out))
                render_spans(t, PT, out, spans)
            s = "".join(out)
            if rng.random() < 0.3:
                s2 = s.replace(" + ", "+").replace(", ", ",").replace(" : ", ":")
                if len(s2) != len(s): spans = []   # positions shifted: only whitespace variants for this one
                s = s2
            bases.append((s, spans, juxt, stmt_starts))
            intended.append(progs.stmts_proto(ts) if spans else None)
        # token spans from the impl's tokenizer
        lex = core.run_impl(["b%d LEX:%s PARSE:%s" % (i, hx(s), hx(s)) for i, (s, *_r) in enumerate(bases)])
        self.fused = 0
        items = []
        for i, (s, spans, juxt, stmt_starts) in enumerate(bases):
            both = lex.get("b%d" % i, " ").split(" ")
            lt = astproto.parse_tokens(both[0])
            # subexpression spans are those of the INTENDED tree: valid only if the text really parses to it (juxtaposed
            # statements may fuse: `a` `(1)` is a call, `a` `- 1` a subtraction)
            if juxt and len(both) > 1 and both[1].split(":")[0] == "OK" and intended[i] is not None and both[1].split(":")[1] != intended[i]:
                spans = []; self.fused += 1
            if not lt or lt[1] != "EOF": continue
            toks = lt[0]
            # the property quantifies over programs whose names are not operator words
            if any(k in ("ref", "func") and unhx(t) in opwords for (k, t, a, e) in toks):
                self.excluded += 1
                continue
            b = s.encode("utf-8")
            variants = []
            # whitespace variants: rewrite every gap / one gap
            bounds = [0] + [x for t in toks for x in (t[2], t[3])] + [len(b)]
            def rebuild(choose):
                parts = []
                for g in range(0, len(bounds) - 1, 2):
                    gap = b[bounds[g]:bounds[g + 1]].decode("utf-8")
                    parts.append(choose(g // 2, gap))
                    if g + 2 < len(bounds):
                        parts.append(b[bounds[g + 1]:bounds[g + 2]].decode("utf-8"))
                return "".join(parts)
            def rnd_ws(nonempty):
                n = rng.randint(1 if nonempty else 0, 3)
                return "".join(rng.choice(WS) for _ in range(n))
            variants.append(("ws-all", rebuild(lambda gi, gap: rnd_ws(bool(gap)) if gap else rng.choice(["", "", rnd_ws(True)]))))
            variants.append(("ws-add-all", rebuild(lambda gi, gap: rnd_ws(True))))
            for _ in range(2):
                target = rng.randrange(len(toks) + 1)
                variants.append(("ws-one", rebuild(lambda gi, gap: (rnd_ws(True) if gi == target else gap))))
            for w in WS:
                variants.append(("ws-" + repr(w), rebuild(lambda gi, gap: gap.replace(" ", w) if gap else gap)))
            # whitespace REMOVED wherever a bracket, comma or semicolon keeps the two tokens apart (`x in [1, 2]` -> `x in[1,2]`);
            # not before `(` after a word (that spells a call)
            def tight(gi):
                if gi <= 0 or gi >= len(toks): return True
                t1, t2 = toks[gi - 1], toks[gi]
                if not (t1[0] in ("delim", "comma", "semi") or t2[0] in ("delim", "comma", "semi")): return False
                if t2[0] == "delim" and t2[1] == "28" and t1[0] in ("ref", "func", "bool", "num", "str"): return False
                return True
            if not juxt:
                variants.append(("ws-removed", rebuild(lambda gi, gap: "" if tight(gi) else gap)))
            # parenthesis variants (char spans == byte spans only for ASCII programs: restrict)
            known = []
            if spans and s.isascii():
                ends = {t[3]: t for t in toks}
                for (a, e, kind) in (spans if len(spans) <= 8 else rng.sample(spans, 4)):
                    k = rng.choice([1, 2, 5])
                    v = s[:a] + "(" * k + s[a:e] + ")" * k + s[e:]
                    d19 = juxt and a in stmt_starts[1:]
                    variants.append(("paren-d19" if d19 else "paren", v))
                    # ... and the same with no blank left around the added parentheses: after an operator (a word operator
                    # too: `x in([1, 2])`, `not(a)`) they still enclose an operand, they do not spell a call
                    a0 = a
                    while a0 > 0 and s[a0 - 1] == " ": a0 -= 1
                    prev = ends.get(a0)
                    if not juxt and a0 < a and prev is not None and prev[0] in ("op", "delim", "comma", "semi"):
                        e1 = e
                        while e1 < len(s) and s[e1] == " ": e1 += 1
                        variants.append(("paren-tight", s[:a0] + "(" * k + s[a:e] + ")" * k + s[e1:]))
            line = "PARSE:%s " % hx(s) + " ".join("PARSE:" + hx(v) for _, v in variants)
            items.append((line, (s, variants)))
        # WIDE programs: hundreds of siblings (list elements, arguments, map entries, operands of one chain, statements), each
        # wrapped in its own redundant parentheses - what parentheses cost must be given back when they close
        for n in ((40, 300) if tier == "quick" else (40, 254, 255, 256, 300, 1000)):
            names = ["v%d" % i for i in range(n)]
            for plain, wrapped in (("[" + ", ".join(names) + "]", "[" + ", ".join("(%s)" % x for x in names) + "]"),
                                   ("f(" + ", ".join(names) + ")", "f(" + ", ".join("((%s))" % x for x in names) + ")"),
                                   ("{" + ", ".join("%s : 1" % x for x in names) + "}", "{" + ", ".join("(%s) : (1)" % x for x in names) + "}"),
                                   (" + ".join(names), " + ".join("(%s)" % x for x in names)),
                                   ("; ".join("%s + 1 > b" % x for x in names), "; ".join("(%s + 1) > b" % x for x in names)),
                                   ("; ".join(names), "; ".join("(%s)" % x for x in names)),
                                   (" && ".join("%s in l" % x for x in names), " && ".join("(%s) in (l)" % x for x in names))):
                items.append(("PARSE:%s PARSE:%s" % (hx(plain), hx(wrapped)), (plain[:60] + "...", [("paren-wide", wrapped[:80] + "...")])))
        # programs under REGISTERED operators (word and symbolic; one name in two roles): every atom (name, number, string, boolean)
        # wrapped in redundant parentheses, with and without blanks around them, and every gap rewritten
        regsets = [
            (["REGS:%s:0" % hx("---"), "REGI:%s:64:0:1:0" % hx("---")], ["100 --- 55", "a --- b --- c", "[a --- b, 1]", "a --- b + c"]),
            (["REGI:%s:f:0:1:0" % hx("implies")], ["a implies b implies c", "a implies b || c", "x = a implies b"]),
            (["REGP:%s:0" % hx("neg")], ["neg a + b", "neg a ++", "1 - neg a", "[neg a, neg 1]"]),
            (["REGS:%s:0" % hx("!!")], ["a !! + b", "a ++ !!", "- a !!"]),
            (["REGP:%s:0" % hx("~"), "REGI:%s:6e:0:0:0" % hx("~")], ["a ~ ~ b", "~ a ~ b", "a ~ b ~ c", "a + ~ b"]),
            (["REGP:%s:0" % hx("++")], ["++ a", "++ a ++", "1 + ++ a"]),
            (["REGI:%s:c8:0:0:0" % hx("within"), "REGP:%s:0" % hx("within")], ["a within b", "a not within b", "within a within b"]),
            (["REGI:%s:6e:0:0:0" % hx("plus"), "REGS:%s:0" % hx("plus")], ["a plus b", "a plus", "a plus plus b"]),
        ]
        rb = []
        for regs, texts in regsets:
            for t_ in texts: rb.append((regs, t_))
        lex2 = core.run_impl(["r%d %s LEX:%s PARSE:%s" % (i, " ".join(regs), hx(t_), hx(t_)) for i, (regs, t_) in enumerate(rb)])
        for i, (regs, t_) in enumerate(rb):
            outs = lex2.get("r%d" % i, "").split(" ")[len(regs):]
            lt = astproto.parse_tokens(outs[0]) if outs else None
            if not lt or lt[1] != "EOF" or len(outs) < 2 or outs[1].split(":")[0] != "OK": continue
            toks = lt[0]
            b = t_.encode("utf-8")
            variants = []
            for (k_, _tx, a, e) in toks:
                if k_ not in ("ref", "num", "str", "bool"): continue
                for k in (1, 3):
                    v = (b[:a] + b"(" * k + b[a:e] + b")" * k + b[e:]).decode("utf-8")
                    variants.append(("paren-atom", v))
                    # no blank before or after the parentheses
                    a0, e1 = a, e
                    while a0 > 0 and b[a0 - 1:a0] == b" ": a0 -= 1
                    while e1 < len(b) and b[e1:e1 + 1] == b" ": e1 += 1
                    prev = [t for t in toks if t[3] == a0]
                    if a0 == 0 or (prev and prev[0][0] in ("op", "delim", "comma", "semi")):
                        variants.append(("paren-atom-tight", (b[:a0] + b"(" * k + b[a:e] + b")" * k + b[e1:]).decode("utf-8")))
            bounds = [0] + [x for t in toks for x in (t[2], t[3])] + [len(b)]
            parts = []
            for g in range(0, len(bounds) - 1, 2):
                gap = b[bounds[g]:bounds[g + 1]].decode("utf-8")
                parts.append("".join(rng.choice(WS) for _ in range(rng.randint(1, 3))) if gap else gap)
                if g + 2 < len(bounds): parts.append(b[bounds[g + 1]:bounds[g + 2]].decode("utf-8"))
            variants.append(("ws-all", "".join(parts)))
            line = " ".join(regs) + " PARSE:%s " % hx(t_) + " ".join("PARSE:" + hx(v) for _, v in variants)
            items.append((line, (t_, variants, len(regs))))
        return flow.mk_cases("layout", items)

    def extra_coverage(self):
        return {"bases_excluded_names_are_operator_words": getattr(self, "excluded", 0),
                "bases_whose_juxtaposed_statements_fused_no_paren_variants": getattr(self, "fused", 0)}

    def show(self, case):
        return case.meta[0] if case.meta else case.line[:200]

    def classify(self, case, impl):
        return impl.split(" ")[case.meta[2] if case.meta and len(case.meta) > 2 else 0].split(":")[0]

    def nontrivial(self, case, impl):
        return impl.count("(") > 2

    def compare(self, case, impl, model):
        return None if impl == model else "ast"

    def known(self, case, impl, detail):
        if "paren-d19" in detail:
            return ("Known_C11_juxt: with `;` omitted, parenthesising the first token of a statement that follows a statement "
                    "ending in a name turns the pair into a call (`a 1` vs `a (1)`) (D19)")
        return None

    @staticmethod
    def nesting(text):
        d = m = 0
        for ch in text:
            if ch in "([{": d += 1; m = max(m, d)
            elif ch in ")]}": d -= 1
        return m

    def oracle(self, case, impl):
        outs = impl.split(" ")
        if case.meta and len(case.meta) > 2: outs = outs[case.meta[2]:]      # registrations come first
        base = outs[0].split(":")
        if base[0] != "OK":
            return "ok", ""          # not an accepted program: the property does not apply
        if not case.meta: return "unknown", ""
        for (kind, v), o in zip(case.meta[1], outs[1:]):
            p = o.split(":")
            if p[0] != "OK" or p[1] != base[1]:
                if p[0] == "ERR" and kind != "paren-wide" and base[1].count("(") > 150 and self.nesting(v) > 150: continue   # nesting limit reached by added parentheses
                return "violates", "%s variant %r parses differently from %r (%s)" % (kind, v, case.meta[0], p[0])
        return "ok", ""
