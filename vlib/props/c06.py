"""C06 - assignments update the context exactly as written."""
from fractions import Fraction
from .. import build, core, flow, gens, values
from ..core import hx, unhx
from . import progs, evalspec, speceval

NAMES = ["a", "b", "c", "d", "A", "ab"]     # case variants and extensions: bindings are keyed by the exact name
SETTERS = ["=", "+=", "-=", "*=", "/=", "%=", "<<=", ">>=", "&=", "^=", "|="]
VALS = [("n", Fraction(0)), ("n", Fraction(1)), ("n", Fraction(7)), ("n", Fraction(-3)), ("n", Fraction(5, 2)), ("n", Fraction(12)),
        ("b", True), ("b", False), ("s", "x"), ("s", ""), ("l", [("n", Fraction(1))]), ("N",), ("n", Fraction(63)), ("n", Fraction(2))]

def rnd_expr(rng, depth):
    r = rng.random()
    if depth <= 0 or r < 0.4:
        if rng.random() < 0.5: return ("ref", rng.choice(NAMES * 3 + ["unbound"]))
        return ("lit", rng.choice(["0", "1", "2", "7", "2.5", "12", "3", "63", "1.50", "10", "4", "true", "'x'"]))
    if r < 0.75:
        op = rng.choice(["+", "-", "*", "+", "-", "*", "/", "%", "==", "!=", "|", "&"])
        return ("bin", op, rnd_expr(rng, depth - 1), rnd_expr(rng, depth - 1))
    if r < 0.85: return ("tern", rnd_expr(rng, depth - 1), rnd_expr(rng, depth - 1), rnd_expr(rng, depth - 1))
    if r < 0.92: return ("list", [rnd_expr(rng, depth - 1) for _ in range(rng.randint(0, 2))])
    return ("bin", rng.choice(SETTERS), ("ref", rng.choice(NAMES)), rnd_expr(rng, depth - 1))   # nested assignment

def safe_expr(rng, depth):
    """numbers only, no division: evaluates without a type error, so that assignments nested inside it are reached and
    what follows them runs. An assignment yields None: it is nested where that value is compared and discarded."""
    r = rng.random()
    if depth <= 0 or r < 0.35:
        if rng.random() < 0.6: return ("ref", rng.choice(NAMES))
        return ("lit", rng.choice(["0", "1", "2", "7", "2.5", "12", "3", "1.50", "10", "4"]))
    if r < 0.7:
        return ("bin", rng.choice(["+", "-", "*"]), safe_expr(rng, depth - 1), safe_expr(rng, depth - 1))
    if r < 0.82:
        cond = ("bin", rng.choice(["==", "<", ">=", "!="]), safe_expr(rng, depth - 1), safe_expr(rng, depth - 1))
        return ("tern", cond, safe_expr(rng, depth - 1), safe_expr(rng, depth - 1))
    # (n op= e) == unbound ? e1 : e2   - the assignment runs, its None is compared with an unbound name (None)
    asg = ("bin", rng.choice(SETTERS[:4] + ["="]), ("ref", rng.choice(NAMES)), safe_expr(rng, depth - 1))
    return ("tern", ("bin", rng.choice(["==", "!="]), asg, ("ref", "unbound")), safe_expr(rng, depth - 1), safe_expr(rng, depth - 1))

def rnd_stmt(rng):
    r = rng.random()
    if r < 0.6:
        return ("bin", rng.choice(SETTERS[:4] if rng.random() < 0.5 else (["="] if rng.random() < 0.6 else SETTERS)), ("ref", rng.choice(NAMES)), rnd_expr(rng, 2))
    if r < 0.7:   # chained x = y = e
        return ("bin", "=", ("ref", rng.choice(NAMES)), ("bin", rng.choice(SETTERS), ("ref", rng.choice(NAMES)), rnd_expr(rng, 1)))
    if r < 0.75:   # target that is not a plain name
        tgt = rng.choice([("lit", "1"), ("list", [("ref", "a")]), ("bin", "+", ("ref", "a"), ("ref", "b")), ("call", "min", [("lit", "1")]), ("un", "-", ("ref", "a"))])
        return ("bin", rng.choice(SETTERS), tgt, rnd_expr(rng, 1))
    if r < 0.80:  # a statement that fails
        return rng.choice([("bin", "/", ("lit", "1"), ("lit", "0")), ("call", "nosuchfn", []), ("bin", "+", ("lit", "1"), ("lit", "true")),
                           ("bin", "=", ("ref", "a"), ("bin", "/", ("lit", "1"), ("lit", "0")))])
    return rnd_expr(rng, 2)

class P:
    prop = "C06"
    rule = ("EXEC (parse_expression(s)?.exec(&mut ctx), then the caller's context is read back) of random statement sequences "
            "(<= 8 statements over 4 names, all 11 assignment operators, values of changing type, nested and chained assignments, "
            "targets that are not names, failing statements at random positions) from random initial contexts, as many mostly-valid programs "
            "(numbers only, no failing operation, assignments nested where their None is compared and discarded - also to the target of "
            "the enclosing compound assignment), plus the exhaustive "
            "product 11 operators x 14x14 value pairs; programs whose variable names are also names of registered functions (sum, min, max, mul), bound and never bound. Oracle: a reference interpreter written from the property text gives the result "
            "class, the value and the full final context. Non-trivial = distinct program with at least one assignment.")
    assumptions = ["the value of an assignment is None, so `x = y = 3` binds y to 3 and x to None (as the property states)"]
    trusted_extra = ["vlib/props/speceval.py: reference semantics used as oracle"]

    def __init__(self):
        self.abstained = 0; self.skipped = 0

    def generate(self, tier, rng):
        global NAMES
        PT = progs.prec_table()
        items = []
        for op in SETTERS:
            for a in VALS:
                for b in VALS:
                    ctx = {"x": ("var", a), "y": ("var", b)}
                    stmts = [("bin", op, ("ref", "x"), ("ref", "y")), ("ref", "x")]
                    items.append(self.mk(stmts, ctx, PT))
        # mostly-valid programs: every name bound to a number, expressions that cannot fail, assignments nested inside the
        # right-hand sides of (compound) assignments - to the same name too
        nsafe = 2500 if tier == "quick" else 200000
        for _ in range(nsafe):
            ctx = {nm: ("var", rng.choice(VALS[:6] + VALS[12:])) for nm in NAMES}
            stmts = []
            for _k in range(rng.randint(1, 6)):
                if rng.random() < 0.75:
                    stmts.append(("bin", rng.choice(SETTERS[:4] + ["=", "="]), ("ref", rng.choice(NAMES)), safe_expr(rng, rng.choice([1, 2, 3]))))
                else:
                    stmts.append(safe_expr(rng, 2))
            stmts.append(("list", [("ref", nm) for nm in NAMES[:4]]))
            items.append(self.mk(stmts, ctx, PT))
        # names bound to context FUNCTIONS (read = call): as assignment targets (`f += 1` reads f by calling it, then binds a plain
        # value to the name), as operands, re-bound and read again
        for _ in range(600 if tier == "quick" else 50000):
            ctx = {nm: ("var", rng.choice(VALS[:6] + VALS[12:])) for nm in NAMES}
            handlers = {}
            for i, nm in enumerate(rng.sample(NAMES, rng.randint(1, 3))):
                ctx[nm] = ("func", 40 + i)
                handlers[40 + i] = ("count", [("ret", rng.choice(VALS[:6] + VALS[12:])) for _k in range(rng.randint(1, 3))])
            stmts = []
            for _k in range(rng.randint(1, 5)):
                if rng.random() < 0.8:
                    stmts.append(("bin", rng.choice(SETTERS[:4] + ["=", "+="]), ("ref", rng.choice(NAMES)), safe_expr(rng, rng.choice([0, 1, 2]))))
                else:
                    stmts.append(safe_expr(rng, 2))
            stmts.append(("list", [("ref", nm) for nm in NAMES[:4]]))
            items.append(self.mk(stmts, ctx, PT, handlers))
        # the target of a compound assignment assigned again inside its own right-hand side: `x op= e` is `x op e` with x read first
        for op in SETTERS[1:]:
            for inner in ("=", "+=", "*="):
                for v0, v1 in (("1", "10"), ("12", "2"), ("7", "3")):
                    asg = ("bin", inner, ("ref", "a"), ("lit", v1))
                    rhs = ("tern", ("bin", "==", asg, ("ref", "unbound")), ("lit", "5"), ("lit", "7"))
                    items.append(self.mk([("bin", "=", ("ref", "a"), ("lit", v0)), ("bin", op, ("ref", "a"), rhs), ("ref", "a")], {}, PT))
                    rhs2 = ("bin", "+", ("tern", ("bin", "==", asg, ("ref", "unbound")), ("ref", "a"), ("lit", "7")), ("lit", "1"))
                    items.append(self.mk([("bin", "=", ("ref", "a"), ("lit", v0)), ("bin", op, ("ref", "a"), rhs2), ("ref", "a")], {}, PT))
        n = 3000 if tier == "quick" else 300000
        for _ in range(n):
            ctx = {}
            for nm in NAMES:
                if rng.random() < 0.8: ctx[nm] = ("var", rng.choice(VALS[:6] + VALS[12:] if rng.random() < 0.85 else VALS))
            stmts = [rnd_stmt(rng) for _ in range(rng.randint(1, 8))]
            items.append(self.mk(stmts, ctx, PT))
        # variable names that are also the names of REGISTERED functions (`sum`, `min`, `max`, `mul`): a name is a variable
        # wherever it is not followed by `(`; never bound it reads None, as a target it is bound like any other name
        saved = NAMES
        try:
            NAMES = ["sum", "min", "max", "mul", "a", "b"]
            for _ in range(1200 if tier == "quick" else 100000):
                ctx = {}
                for nm in NAMES:
                    if rng.random() < 0.4: ctx[nm] = ("var", rng.choice(VALS[:6] + VALS[12:]))
                if rng.random() < 0.5:
                    stmts = [rnd_stmt(rng) for _ in range(rng.randint(1, 5))]
                else:
                    stmts = [("bin", rng.choice(SETTERS[:4] + ["=", "="]), ("ref", rng.choice(NAMES)), safe_expr(rng, rng.choice([0, 1, 2]))) for _k in range(rng.randint(1, 4))]
                    stmts.append(("call", rng.choice(NAMES[:4]), [("ref", nm) for nm in rng.sample(NAMES, 2)]))
                stmts.append(("list", [("ref", nm) for nm in NAMES]))
                items.append(self.mk(stmts, ctx, PT))
        finally:
            NAMES = saved
        empties = [("EXEC:1:" + hx(""), ([], {}, {})), ("EXEC:1:" + hx("unbound"), ([("ref", "unbound")], {}, {}))]
        return flow.mk_cases("assign", items) + flow.mk_cases("edge", empties)

    def mk(self, stmts, ctx, PT, handlers=None):
        src = "; ".join(progs.render_min(s, PT) for s in stmts)
        ops = ["H:%d:%s" % (h, speceval.to_proto_script(sc)) for h, sc in sorted((handlers or {}).items())]
        ops += ["CV:1:%s:%s" % (hx(k), speceval.to_proto_value(v[1])) if v[0] == "var" else "CF:1:%s:%d" % (hx(k), v[1]) for k, v in ctx.items()]
        return (" ".join(ops + ["EXEC:1:" + hx(src)]), (stmts, ctx, handlers or {}))

    def show(self, case):
        stmts, ctx, handlers = case.meta
        PT = progs.prec_table()
        return {"program": "; ".join(progs.render_min(s, PT) for s in stmts), "context": {k: str(v[1]) for k, v in ctx.items()}}

    def classify(self, case, impl):
        return impl.split(" ")[-1].split(":")[0]

    def nontrivial(self, case, impl):
        return "=" in unhx(case.line.split(":")[-1])

    def compare(self, case, impl, model):
        eq, abst = values.exec_equal(impl.split(" ")[-1], model.split(" ")[-1])
        if abst: self.abstained += 1
        return None if eq else "value+context"

    def extra_coverage(self):
        return {"inexact_region_abstained": self.abstained, "oracle_skipped_rounding_region": self.skipped}

    def known(self, case, impl, detail):
        return None

    def oracle(self, case, impl):
        d = values.split_exec(impl.split(" ")[-1])
        if d["cls"] not in ("OK", "ERR"): return "violates", "evaluation did not return: " + d["cls"]
        stmts, ctx, handlers = case.meta
        cls, val, fctx, _log = speceval.run_program(stmts, ctx, handlers)
        if cls == "SKIP":
            self.skipped += 1
            return "ok", ""
        if cls != d["cls"]:
            return "violates", "reference semantics give %s, evaluation gave %s" % (cls, d["cls"])
        if cls == "OK":
            got = evalspec.from_proto(values.parse_value(d["value"]))
            if not evalspec.seq(got, val): return "violates", "program value %s, reference %s" % (d["value"], val)
        have = dict(values.ctx_items(d["ctx"] or "C{}"))
        want = {hx(k): v for k, v in fctx.items()}
        if set(have) != set(want):
            return "violates", "context names differ: %s vs %s" % (sorted(unhx(k) for k in have), sorted(unhx(k) for k in want))
        for k, v in want.items():
            if v[0] == "func":
                if have[k] != "F%d" % v[1]:
                    return "violates", "%s is bound to %s, reference: still the context function %d" % (unhx(k), have[k], v[1])
                continue
            if have[k].startswith("F"):
                return "violates", "%s is still a context function (%s), reference binds %s" % (unhx(k), have[k], v[1])
            got = evalspec.from_proto(values.parse_value(have[k]))
            if not evalspec.seq(got, v[1]):
                return "violates", "binding of %s is %s, reference %s" % (unhx(k), have[k], v[1])
        return "ok", ""
