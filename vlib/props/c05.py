"""C05 - malformed input is rejected, never silently repaired."""
import itertools, collections
from functools import lru_cache
from .. import build, core, flow, gens, astproto
from ..core import hx, unhx
from . import progs

def in_L(toks, roles):
    """Recogniser for the documented grammar read leniently, at token level (independent of parser.rs; precedence-free
    because membership does not depend on grouping). toks: [(kind, text)] ; roles: (prefix, infix, postfix) name sets."""
    prefix, infix, postfix = roles
    n = len(toks)
    def is_op(i, s): return i < n and toks[i][0] == "op" and toks[i][1] == s
    def is_delim(i, s): return i < n and toks[i][0] == "delim" and toks[i][1] == s
    @lru_cache(maxsize=None)
    def atom(i):
        if i >= n: return frozenset()
        k, t = toks[i]
        if k in ("num", "bool", "str", "ref"): return frozenset([i + 1])
        if k == "func":
            if not is_delim(i + 1, "("): return frozenset()
            if is_delim(i + 2, ")"): return frozenset([i + 3])
            return seq_until(i + 2, ")", False)
        if k == "delim" and t == "(":
            return frozenset(j + 1 for j in expr(i + 1) if is_delim(j, ")"))
        if k == "delim" and t == "[":
            if is_delim(i + 1, "]"): return frozenset([i + 2])
            return seq_until(i + 1, "]", True)
        if k == "delim" and t == "{":
            if is_delim(i + 1, "}"): return frozenset([i + 2])
            return map_until(i + 1)
        return frozenset()
    @lru_cache(maxsize=None)
    def seq_until(i, close, trailing):
        out = set()
        for j in expr(i):
            if is_delim(j, close): out.add(j + 1)
            if j < n and toks[j][0] == "comma":
                if trailing and is_delim(j + 1, close): out.add(j + 2)
                out |= seq_until(j + 1, close, trailing)
        return frozenset(out)
    @lru_cache(maxsize=None)
    def map_until(i):
        out = set()
        for j in expr(i):
            if is_op(j, ":"):
                for k in expr(j + 1):
                    if is_delim(k, "}"): out.add(k + 1)
                    if k < n and toks[k][0] == "comma":
                        if is_delim(k + 1, "}"): out.add(k + 2)
                        out |= map_until(k + 1)
        return frozenset(out)
    @lru_cache(maxsize=None)
    def unary(i):
        # Primary := Token POSTFIX* ; Token := Atom | PREFIX Primary
        out = set(atom(i))
        if i < n and toks[i][0] == "op" and toks[i][1] in prefix:
            out |= unary(i + 1)
        work = list(out)
        while work:
            j = work.pop()
            if j < n and toks[j][0] == "op" and toks[j][1] in postfix and (j + 1) not in out:
                out.add(j + 1); work.append(j + 1)
        return frozenset(out)
    @lru_cache(maxsize=None)
    def chain(i):
        out = set(); work = list(unary(i))
        while work:
            j = work.pop()
            if j in out: continue
            out.add(j)
            k = j
            if is_op(k, "not"): k += 1
            if k < n and toks[k][0] == "op" and toks[k][1] in infix:
                work.extend(unary(k + 1))
        return frozenset(out)
    @lru_cache(maxsize=None)
    def expr(i):
        out = set()
        for j in chain(i):
            out.add(j)
            if is_op(j, "?"):
                for m in expr(j + 1):
                    if is_op(m, ":"): out |= expr(m + 1)
        return frozenset(out)
    @lru_cache(maxsize=None)
    def stmts(i):
        out = set()
        for j in expr(i):
            out.add(j)
            out |= stmts(j)
            if j < n and toks[j][0] == "semi":
                out.add(j + 1); out |= stmts(j + 1)
        return frozenset(out)
    return n == 0 or n in stmts(0)

TOKS_Q = ["1", "a", "f(", "(", ")", "[", "]", "{", "}", ",", ";", "?", ":", "not", "+", "=", "!", "++", "in", "'s'",
          # string literals whose CONTENT spells a separator / delimiter (a token must never be read as another)
          "','", "':'", "']'", "')'"]
QUOTED = ["','", "':'", "']'", "')'", "'}'", "'('", "';'", "'?'", "\",\"", "'+'", "'not'"]

class P:
    prop = "C05"
    rule = ("LEX+PARSE of: all sequences of <=3 tokens over 20 representative tokens and of 4 tokens over a 14-token "
            "sub-alphabet (rendered with single spaces; the alphabet includes string literals whose content spells a separator or delimiter), single-token corruptions (delete/insert/replace/swap) of valid "
            "programs, character corruptions, alphabet strings. Oracle: every accepted input is a sentence of the leniently "
            "read documented grammar (independent token-level recogniser) and the AST uses exactly the program's tokens "
            "(no token dropped or re-read as another). Non-trivial = distinct token sequence of >= 2 tokens.")
    assumptions = ["lenient reading: `;` between statements optional, one trailing `,` in a list or map (not in a call), one trailing `;`"]
    trusted_extra = ["vlib/props/c05.py in_L: the documented grammar as a recogniser"]

    def __init__(self):
        self.roles = None
        self.accepted = 0

    def get_roles(self):
        if self.roles is None:
            infix, prefix, postfix, _ = gens.builtin_ops(build.table_path())
            self.roles = (frozenset(prefix), frozenset(n for n, *_ in infix), frozenset(postfix))
        return self.roles

    def generate(self, tier, rng):
        cases = []
        seqs = []
        k3 = TOKS_Q
        for n in range(0, 4):
            for t in itertools.product(k3, repeat=n): seqs.append(" ".join(t))
        sub = ["1", "a", "f(", "(", ")", "[", "]", ",", ";", "?", ":", "not", "+", "++"]
        # a missing (or wrong) separator between every ordered pair of element shapes, in every container kind
        ELEMS = ["1", "a", "'s'", "( 2 )", "[ 2 ]", "[ ]", "{ }", "{ 1 : 2 }", "f( 2 )", "f( )", "- 1", "a ++", "true"]
        for e1 in ELEMS:
            for e2 in ELEMS:
                for sepr in ["", ";", ":", "?"]:
                    seqs.append("[ %s %s %s ]" % (e1, sepr, e2))
                    seqs.append("f( %s %s %s )" % (e1, sepr, e2))
                    seqs.append("{ %s : 1 %s %s : 2 }" % (e1, sepr, e2))
                for sepr in ["", ",", ";", "="]:
                    seqs.append("{ %s %s %s }" % (e1, sepr, e2))
                    seqs.append("true ? %s %s %s" % (e1, sepr, e2))
        # separators replaced by their quoted spelling inside every small construct
        for q in QUOTED:
            for tmpl in ["[ 1 %s 2 ]", "{ 1 %s 2 }", "{ 1 : 2 %s 3 : 4 }", "f( 1 %s 2 )", "true ? 1 %s 2", "true %s 1 : 2", "( 1 %s", "[ 1 , 2 %s",
                         "{ 1 : 2 %s", "f( 1 %s", "1 %s 2", "a %s", "%s 1", "f %s 1 )"]:
                seqs.append(tmpl % q)
        if tier == "quick":
            sub4 = sub[:11]
            for t in itertools.product(sub4, repeat=4): seqs.append(" ".join(t))
        else:
            for t in itertools.product(k3, repeat=4): seqs.append(" ".join(t))
            for t in itertools.product(sub, repeat=5): seqs.append(" ".join(t))
        cases += flow.mk_cases("tokseq", [("LEX:%s PARSE:%s" % (hx(s), hx(s)), None) for s in seqs])
        valid = progs.sample_programs(rng, 400 if tier == "quick" else 30000, depth=3)
        corr = []
        for s in valid:
            toks = s.replace("(", " ( ").replace(")", " ) ").replace("[", " [ ").replace("]", " ] ").replace("{", " { ").replace("}", " } ").replace(",", " , ").split()
            for _ in range(4):
                t = list(toks)
                if not t: continue
                i = rng.randrange(len(t)); r = rng.random()
                if r < 0.3: del t[i]
                elif r < 0.45: t.insert(i, rng.choice(k3).strip("("))
                elif r < 0.55: t[i] = "'" + t[i] + "'" if "'" not in t[i] else '"' + t[i] + '"'   # the token's text as a string literal
                elif r < 0.8: t[i] = rng.choice(k3).strip("(")
                else:
                    j = rng.randrange(len(t)); t[i], t[j] = t[j], t[i]
                corr.append(" ".join(t))
            corr.append(progs.corrupt(rng, s))
        cases += flow.mk_cases("corrupt", [("LEX:%s PARSE:%s" % (hx(s), hx(s)), None) for s in corr])
        # tables at the edge of the parser's binding-power arithmetic (a registered operator of precedence 0 or 1, either
        # associativity: r_bp = -1 is also what a token that is no infix operator reports): correspondence only - the grammar
        # theorem assumes positive precedences, the model is the same arithmetic and must agree with the code on every sequence
        edge = []
        alpha = ["a", "=>", ":", "?", ",", "[", "]", "+", "1", "not"]
        eseqs = [" ".join(t) for n in range(1, 5) for t in itertools.product(alpha[:7] if n == 4 else alpha, repeat=n)]
        eseqs += ["a => b : c", "[a => b : c]", "{1: a => 2 : 3}", "f(a => b : c)", "x ? a => b : c", "a => b => c : d", "a => b + c : d", "a => b ! c", "a => b ++ : c"]
        for regs in (["REGI:%s:0:0:1:0" % hx("=>")], ["REGI:%s:0:0:0:0" % hx("=>")], ["REGI:%s:1:0:1:0" % hx("=>")], ["REGI:%s:1:0:0:0" % hx("=>")],
                     ["REGI:%s:0:1:1:0" % hx("=>")]):
            for i in range(0, len(eseqs), 80):
                edge.append((" ".join(regs + ["PARSE:" + hx(q) for q in eseqs[i:i + 80]]), ("edge", len(regs))))
        cases += flow.mk_cases("edgetable", edge)
        strs = list(gens.symbol_strings(gens.SYMBOLS, 2))
        cases += flow.mk_cases("alpha", [("LEX:%s PARSE:%s" % (hx(s), hx(s)), None) for s in strs])
        return cases

    def show(self, case):
        return unhx(case.line.split(" ")[1].split(":")[1])

    def classify(self, case, impl):
        return impl.split(" ")[-1].split(":")[0]

    def nontrivial(self, case, impl):
        return impl.count(";") >= 1

    def compare(self, case, impl, model):
        return None if impl == model else "lex+parse outcome"

    def known(self, case, impl, detail):
        return None

    def extra_coverage(self):
        return {"accepted_inputs_checked_against_grammar": self.accepted}

    def oracle(self, case, impl):
        outs = impl.split(" ")
        if case.meta and case.meta[0] == "edge":
            if any(o.split(":")[0] in ("PANIC", "ABORT", "HANG", "MISSING") for o in outs) or impl in ("ABORT", "HANG", "MISSING"):
                return "violates", "parser did not return under a table with a precedence-0/1 operator"
            return "ok", ""
        if len(outs) < 2: return "unknown", impl[:60]
        lexo, parseo = outs[0], outs[1]
        cls = parseo.split(":")[0]
        if cls in ("PANIC", "ABORT", "HANG", "MISSING"):
            return "violates", "parser did not return: " + cls
        lt = astproto.parse_tokens(lexo)
        if lt is None: return "unknown", "lex output"
        toks, term = lt
        if cls == "OK" and term != "EOF":
            return "violates", "input with a lexical error (unterminated string / malformed number) was accepted"
        if cls != "OK": return "ok", ""
        self.accepted += 1
        def txt(k, t): return unhx(t) if k in ("op", "delim", "ref", "func", "comma", "semi", "str") else t
        tl = tuple((k, txt(k, t)) for (k, t, a, b) in toks)
        if not in_L(tl, self.get_roles()):
            return "violates", "accepted input is not a sentence of the grammar: " + " ".join(t for k, t in tl)
        # the AST must account for exactly the tokens that are not punctuation
        ast = astproto.parse_ast(parseo.split(":")[1])
        have = collections.Counter()
        cnt = collections.Counter()
        def visit(t):
            cnt[t[0]] += 1
            if t[0] == "num": have[("num", "n(0,%x,%d)" % (t[1], t[2]))] += 1
            elif t[0] == "bool": have[("bool", t[1])] += 1
            elif t[0] == "str": have[("str", t[1])] += 1
            elif t[0] == "ref": have[("ref", t[1])] += 1
            elif t[0] == "un": have[("op", t[1])] += 1
            elif t[0] == "bin": have[("op", t[1])] += 1
            elif t[0] == "post": have[("op", t[2])] += 1
            elif t[0] == "call": have[("func", t[1])] += 1
            elif t[0] == "map": cnt["mapentry"] += len(t[1])
        astproto.walk(ast, visit)
        want = collections.Counter()
        q = colon = 0
        for (k, t, a, b) in toks:
            if k == "op" and unhx(t) == "?": q += 1
            elif k == "op" and unhx(t) == ":": colon += 1
            elif k in ("num", "bool", "str", "ref", "op", "func"): want[(k, t)] += 1
        if want != have:
            return "violates", "AST does not use exactly the program's tokens: dropped/invented %s" % dict((want - have) + (have - want))
        if q != cnt["tern"] or colon != cnt["tern"] + cnt["mapentry"]:
            return "violates", "`?`/`:` tokens do not match the conditionals and map entries of the AST"
        lb = sum(1 for (k, t, a, b) in toks if k == "delim" and unhx(t) == "[")
        lc = sum(1 for (k, t, a, b) in toks if k == "delim" and unhx(t) == "{")
        if lb != cnt["list"] or lc != cnt["map"]:
            return "violates", "delimiters do not match the lists/maps of the AST"
        return "ok", ""
