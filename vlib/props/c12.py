"""C12 - expr() output re-parses to the same AST; rendering is idempotent."""
from .. import build, core, flow, gens
from ..core import hx, unhx
from . import progs

class P:
    prop = "C12"
    rule = ("RT (parse s; x = expr(); parse x; expr() again) on: every infix operator nested under every other on either "
            "side (plain and `not` forms), prefix/postfix over every compound operand kind, conditionals in all three "
            "positions, strings with either quote, calls/lists/maps/chains (exhaustive small shapes), and random programs "
            "rendered fully parenthesised (so that every tree shape is reached). Oracle: second parse is Ok, equal AST, "
            "equal text. Non-trivial = distinct program with at least one operator or container.")
    assumptions = ["names are not operator words (as the property states)"]
    trusted_extra = []

    def generate(self, tier, rng):
        infix, prefix, postfix, _ = gens.builtin_ops(build.table_path())
        names = [n for n, *_ in infix]
        A, B, C = ("ref", "a"), ("lit", "1.50"), ("lit", "'s'")
        items = []
        for o1 in names:
            for o2 in names:
                for k1 in ("bin", "nbin"):
                    for k2 in ("bin", "nbin"):
                        if tier == "quick" and (k1, k2) == ("nbin", "nbin"): continue
                        items.append((k1, o1, (k2, o2, A, B), C))
                        items.append((k1, o1, A, (k2, o2, B, C)))
        compound = [("bin", "+", A, B), ("nbin", "in", A, ("list", [B])), ("un", "-", A), ("un", "not", ("lit", "true")),
                    ("post", A, "++"), ("tern", A, B, C), ("call", "f", [A, B]), ("list", [A]), ("map", [(A, B)]),
                    ("un", "not", ("bin", "==", A, B)), ("un", "-", ("post", A, "++")), ("post", ("un", "-", A), "--")]
        for c in compound:
            for p in prefix: items.append(("un", p, c))
            for p in postfix: items.append(("post", c, p))
            items.append(("tern", c, c, c)); items.append(("bin", "=", A, c)); items.append(("bin", "*", c, c))
            items.append(("call", "g", [c, c])); items.append(("list", [c, c])); items.append(("map", [(c, c)]))
        strs = ["'a\"b'", "\"it's\"", "''", "\"\"", "'é'", "'a b'", "\"[1,2]\"", "'?:'",
                # a backslash is an ordinary character of a string: it does not escape the closing quote
                "'a\\'", "\"b\\\"", "'\\\\'", "\"it's \\\"", "'say \\'"]
        for s in strs:
            items.append(("lit", s)); items.append(("bin", "+", ("lit", s), ("lit", s))); items.append(("map", [(("lit", s), ("lit", s))]))
        cases = flow.mk_cases("shapes", [("RT:" + hx(progs.render_full(t)), None) for t in items])
        # the same trees with every argument, element, map key and map value that is not an atom in parentheses as well: a parser
        # that only accepts some construct in parentheses there (a conditional as a map key, say) still yields the tree, and
        # the printer must write a text that reads back
        cases += flow.mk_cases("shapes-elems", [("RT:" + hx(progs.render_full(t, None, True)), None) for t in items])
        chains = ["a;b", "a=1;b=a+1;b", "1;2;3;", "[1,2,];{1:2,}", "f();g(1)", "",
                  # sub-trees equal as numbers, different as text: each literal is written as it was read
                  "\"it's \\\"ok\\\"\"", "x == \"don't say \\\"no\\\"\"", "'it\\'s \"q\"'", "['a\\', 'b']", "\"a\\\" + \"b\"",
                  "a * 0.10 > 5 ? a * 0.1 : 0", "[[1], [1.0], [1.00], [1]]", "f(1.50) + f(1.5) + f(1.50)", "-(1.0) + -(1)", "{1: [2.0], 1.0: [2]}"]
        cases += flow.mk_cases("chains", ["RT:" + hx(s) for s in chains])
        # operators spelled as words (registered at run time: postfix, prefix, infix) directly in front of every separator the
        # printer writes without a blank ( , ; : ) ] } ): the rendered text must read back as the same tree
        regs = "H:31:rn(0,1,0) REGS:%s:31 REGP:%s:31 REGI:%s:6e:0:0:31 REGS:%s:31 " % (hx("bang"), hx("neg"), hx("hi"), hx("zz"))
        wprogs = ["[a bang , b]", "f(a bang , b bang)", "{a bang : b bang , c : d}", "a bang ; b bang ; c", "(a bang) hi (b bang)",
                  "[neg a , b hi c , c bang]", "{a hi b : c bang}", "a bang ? b bang : c bang", "[a bang zz , [b zz]]", "f(neg a bang)",
                  "g(a hi b bang , {x : y zz})", "a = b bang ; a", "[a bang]", "f()", "{a zz : a zz}", "neg neg a bang zz ; b"]
        cases += flow.mk_cases("wordops", [regs + "RT:" + hx(p) for p in wprogs])
        # the printer must use the operator table in force NOW: an operator is registered, trees are rendered, the same operator
        # is registered again with another precedence / associativity, trees parsed under the new table are rendered
        # (all on one thread): every rendering must read back as its tree
        base = {n_: (p_, r_) for n_, p_, s_, r_ in infix}
        for _ in range(150 if tier == "quick" else 5000):
            PT2 = dict(base)
            words = rng.sample(["hi", "lo", "zed"], rng.randint(1, 2))
            ops_ = []
            def tree(d):
                if d <= 0 or rng.random() < 0.3: return ("ref", rng.choice(["a", "b", "c"]))
                return ("bin", rng.choice(words * 4 + ["+", "*", "==", "&&", "-", "/", "<<", "in", "||", "="]), tree(d - 1), tree(d - 1))
            for _phase in range(rng.choice([2, 3])):
                for w in words:
                    # next to the built-in levels, and ON them (a level then mixes both associativities)
                    pr = rng.choice([21, 39, 41, 59, 61, 99, 109, 111, 119, 121, 199, 201, 20, 40, 60, 100, 110, 110, 120, 120, 200])
                    right = rng.random() < 0.4
                    PT2[w] = (pr, right)
                    ops_.append("REGI:%s:%x:0:%d:0" % (hx(w), pr, 1 if right else 0))
                for _k in range(3):
                    ops_.append("RT:" + hx(progs.render_full(tree(rng.choice([2, 3])))))
            if rng.random() < 0.5:
                # renderings on two persistent threads, registrations on a third: what a thread remembered about an operator
                # must not survive a registration made by ANOTHER thread
                ops_ = [("@%s/%s" % (rng.choice("wv"), o)) if o.startswith("RT:") else ("@m/" + o) for o in ops_]
            cases += flow.mk_cases("rereg", [" ".join(ops_)], start=len([c for c in cases if c.gen == "rereg"]))
        # trees as high as the parser returns them: their rendering must still read back as the same tree
        deep = []
        for k in (253, 254, 255):
            deep += ["!" * k + "a", "- " * k + "a", "[" * k + "a" + "]" * k, "f(" * k + "a" + ")" * k, "{1:" * k + "a" + "}" * k,
                     "c ? b : " * k + "a", "b = " * k + "a", "[-" * (k // 2) + "a" + "]" * (k // 2), "1 + f(" * (k // 2) + "a" + ")" * (k // 2),
                     "a" + " ++" * k, "(" * 200 + "a" + " + 1)" * 200]
        # accepted programs whose nesting sits at the limit because of parentheses the tree does not need, or of a long chain in
        # front of a deeply nested operand: the rendering must not need more nesting than the source did (D23)
        for k in (248, 250, 251, 252, 253, 254):
            deep.append("a * (b = " + "[" * k + "1" + "]" * k + ") + d")
            deep.append("(a + b) * " + "(" * (k - 3) + "c" + ")" * (k - 3))
        for k, m in ((100, 200), (10, 240), (3, 250), (250, 3), (128, 126), (200, 54), (254, 1), (1, 253)):
            deep.append("(" + "a + " * k + "a) + " + "[" * m + "1" + "]" * m)
            deep.append("a + " * k + "[" * m + "1" + "]" * m)
            deep.append("(" + "a + " * k + "a) ? " + "[" * m + "1" + "]" * m + " : " + "f(" * m + "1" + ")" * m)
            deep.append("- " * (m // 2) + "(" + "a * " * k + "a)")
        from .c01 import amplifier_families
        deep += [s_ for _n, _k, s_ in amplifier_families()]
        cases += flow.mk_cases("deep", ["RT:" + hx(p_) for p_ in deep])
        n = 3000 if tier == "quick" else 300000
        rnd = []
        for _ in range(n):
            ts = progs.gen_stmts(rng, depth=rng.choice([2, 3, 4, 5]))
            rnd.append("RT:" + hx("; ".join(progs.render_full(t) for t in ts)))
        cases += flow.mk_cases("rand", rnd)
        return cases

    def show(self, case):
        return unhx(case.line.split(" ")[-1].split(":")[1])

    def classify(self, case, impl):
        p = impl.split(" ")[-1].split(":")
        return p[0] if p[0] != "OK" else ("OK/" + p[3].split(";")[0] if len(p) > 3 else "OK")

    def nontrivial(self, case, impl):
        return any(ch in impl for ch in "BUPTFLM")

    def run_model(self, lines):
        self.thm = core.ThmRunner()
        return self.thm.run(lines)

    def compare(self, case, impl, model):
        if impl != model:
            return "ast+expr+reparse"
        if self.thm.broken(case.cid):
            # the hypotheses of the round-trip theorem hold for this tree but the tokenizer model does not read the printer
            # model's text as etoks(t): theorem C12_round_trip / C02_round_trip no longer speaks about what expr() writes
            return "thm:printer_tokens (Props C12_round_trip: printer text is not the token image etoks)"
        return None

    def extra_coverage(self):
        return {"round_trip_theorem_side_conditions": dict(self.thm.stats)}

    def known(self, case, impl, detail):
        return None

    def oracle(self, case, impl):
        outs = [o for o, op in zip(impl.split(" "), case.line.split(" ")[1:]) if op.split("/", 1)[-1].startswith("RT:")]
        for o in outs[:-1]:
            v, d = self.oracle1(o)
            if v != "ok": return v, d
        return self.oracle1(impl.split(" ")[-1])

    def oracle1(self, out):
        p = out.split(":")
        if p[0] == "ERR": return "ok", ""
        if p[0] != "OK": return "violates", "parse/expr did not return: " + p[0]
        ast1, x = p[1], p[2]
        if not p[3].startswith("OK;"):
            return "violates", "expr() output %r is not accepted (%s)" % (unhx(x), p[3][:20])
        ast2, x2 = p[3][3:].rsplit(";", 1)
        if ast2 != ast1:
            return "violates", "expr() output %r re-parses to a different AST" % unhx(x)
        if x2 != x:
            return "violates", "expr() is not idempotent: %r then %r" % (unhx(x), unhx(x2))
        return "ok", ""
