"""Reference semantics of programs over tuple ASTs (progs.gen_ast shape), written from the property texts:
left-to-right, each subexpression once, calls after their arguments, lazy conditionals, stop at the first error,
assignments update the context in program order. Values are evalspec values. Handlers are scripts:
('ret', v) | ('arg', i) | ('fail',) | ('count', [scripts])."""
from fractions import Fraction
from . import evalspec
from .evalspec import ERR, SKIP

class Stop(Exception):
    def __init__(self, kind): self.kind = kind     # 'ERR' | 'SKIP'

def lit_value(text):
    if text in ("true", "True"): return ("b", True)
    if text in ("false", "False"): return ("b", False)
    if text[0] in "'\"": return ("s", text[1:-1])
    if "." in text:
        a, b = text.split(".")
        return ("n", Fraction(int(a + b), 10 ** len(b)))
    return ("n", Fraction(int(text)))

class Machine:
    def __init__(self, ctx, handlers, globals_=None, setters=None, builtin_funcs=("min", "max", "sum", "mul")):
        self.ctx = dict(ctx)            # name -> ('var', value) | ('func', hid)
        self.handlers = handlers        # hid -> script
        self.globals = globals_ or {}   # global function name -> hid
        self.log = []                   # (hid, [args])
        self.counts = {}
        self.setters = setters or {"=", "+=", "-=", "*=", "/=", "%=", "<<=", ">>=", "&=", "^=", "|="}
        self.builtin_funcs = builtin_funcs
        self.regops = {}                # registered operators with scripted handlers: ('I'|'P'|'S', name) -> hid

    def call(self, hid, args):
        n = self.counts.get(hid, 0); self.counts[hid] = n + 1
        self.log.append((hid, list(args)))
        return self.run(self.handlers.get(hid, ("ret", ("N",))), n, args)

    def run(self, s, n, args):
        if s[0] == "ret": return s[1]
        if s[0] == "arg": return args[s[1]] if s[1] < len(args) else ("N",)
        if s[0] == "fail": raise Stop("ERR")
        if s[0] == "panic": raise Stop("PANIC")
        if s[0] == "count":
            l = s[1]
            if not l: return ("N",)
            return self.run(l[min(n, len(l) - 1)], n, args)
        raise ValueError(s)

    def chk(self, v):
        if v is None or v == SKIP or (isinstance(v, tuple) and v and v[0] == "OVF"): raise Stop("SKIP")
        if v == ERR: raise Stop("ERR")
        return v

    @staticmethod
    def vdepth(v):
        d, stack = 0, [(v, 0)]
        while stack:
            x, lvl = stack.pop()
            if x[0] == "l":
                lvl += 1; stack.extend((y, lvl) for y in x[1])
            elif x[0] == "m":
                lvl += 1; stack.extend((y, lvl) for p_ in x[1] for y in p_)
            d = max(d, lvl)
        return d

    def bounded(self, v):
        if self.vdepth(v) > 256: raise Stop("ERR")
        return v

    def ev(self, t):
        k = t[0]
        if k == "lit": return lit_value(t[1])
        if k == "ref":
            b = self.ctx.get(t[1])
            if b is None: return ("N",)
            if b[0] == "var": return b[1]
            return self.call(b[1], [])
        if k == "call":
            args = [self.ev(a) for a in t[2]]
            b = self.ctx.get(t[1])
            if b is not None and b[0] == "func": return self.call(b[1], args)
            if t[1] in self.globals: return self.call(self.globals[t[1]], args)
            if t[1] in self.builtin_funcs: return self.chk(evalspec.function(t[1], args))
            raise Stop("ERR")
        if k == "un":
            v = self.ev(t[2])
            if ("P", t[1]) in self.regops: return self.call(self.regops[("P", t[1])], [v])
            return self.chk(evalspec.prefix(t[1], v))
        if k == "post":
            v = self.ev(t[1])
            if ("S", t[2]) in self.regops: return self.call(self.regops[("S", t[2])], [v])
            return self.chk(evalspec.postfix(t[2], v))
        if k in ("bin", "nbin"):
            op = t[1]
            a = self.ev(t[2]); b = self.ev(t[3])
            if ("I", op) in self.regops:
                # a registered (calc) operator: left operand, right operand, then the handler - whatever its associativity
                v = self.call(self.regops[("I", op)], [a, b])
                if k == "nbin": return self.chk(evalspec.prefix("not", v))
                return v
            if op in self.setters:
                if k == "nbin": raise Stop("SKIP")
                if t[2][0] != "ref": raise Stop("ERR")
                v = self.chk(evalspec.infix(op, a, b))
                self.ctx[t[2][1]] = ("var", v)
                return ("N",)
            v = self.chk(evalspec.infix(op, a, b))
            if k == "nbin":
                return self.chk(evalspec.prefix("not", v))
            return v
        if k == "tern":
            c = self.ev(t[1])
            if c[0] != "b": raise Stop("ERR")
            return self.ev(t[2]) if c[1] else self.ev(t[3])
        # a list or map nested deeper than 256 levels is refused once all its parts have been evaluated (fix d4f0af3)
        if k == "list": return self.bounded(("l", [self.ev(a) for a in t[1]]))
        if k == "map": return self.bounded(("m", [(self.ev(a), self.ev(b)) for a, b in t[1]]))
        raise ValueError(k)

def run_program(stmts, ctx, handlers, globals_=None, regops=None):
    """returns (cls, value, ctx, log) with cls in OK / ERR / SKIP"""
    m = Machine(ctx, handlers, globals_)
    if regops: m.regops = dict(regops)
    last = ("N",)
    try:
        for s in stmts:
            last = m.ev(s)
        return "OK", last, m.ctx, m.log
    except Stop as e:
        return e.kind, None, m.ctx, m.log

# ---- protocol encoding of spec values / scripts
def to_proto_value(v):
    from ..values import mk_num
    from ..core import hx
    k = v[0]
    if k == "n":
        q = v[1]
        for s in range(0, 29):
            mm = q * 10 ** s
            if mm.denominator == 1: return mk_num(mm < 0, abs(mm.numerator), s)
        raise ValueError("not representable")
    if k == "s": return "s(%s)" % hx(v[1])
    if k == "b": return "b(%d)" % (1 if v[1] else 0)
    if k == "l": return "l(%s)" % ";".join(to_proto_value(x) for x in v[1])
    if k == "m": return "m(%s)" % ";".join(to_proto_value(a) + "=" + to_proto_value(b) for a, b in v[1])
    return "N"

def to_proto_script(s):
    if s[0] == "ret": return "r" + to_proto_value(s[1])
    if s[0] == "arg": return "a%d." % s[1]
    if s[0] == "fail": return "e" if len(s) < 2 else "E%d" % s[1]
    if s[0] == "panic": return "p"
    if s[0] == "count": return "k[" + ",".join(to_proto_script(x) for x in s[1]) + "]"
    raise ValueError(s)


def log_matches(log_text, log):
    """the call log printed by the harness against the reference log: same handlers in the same order, arguments equal as VALUES
    (a quotient may carry any scale: 0.5 and 0.50 are the same argument)"""
    from .. import values
    try:
        have = values.log_items(log_text)
    except Exception:
        return False
    if len(have) != len(log): return False
    for (h1, a1), (h2, a2) in zip(have, log):
        if h1 != h2 or len(a1) != len(a2): return False
        for x, y in zip(a1, a2):
            if not evalspec.seq(evalspec.from_proto(values.parse_value(x)), y): return False
    return True
