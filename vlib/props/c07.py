"""C07 - each subexpression runs once, left to right; conditionals are lazy; evaluation stops at the first error."""
from fractions import Fraction
from .. import build, core, flow, gens, values
from ..core import hx, unhx
from . import progs, evalspec, speceval

FN = ["f0", "f1", "f2", "f3"]          # context functions (handlers 10..13)
# globally registered functions (handlers 20..23): two of their own, one whose name is ALSO bound to a context function (the
# context's one shadows it: a call invokes exactly one of them) and one whose name is also a context variable (`w(..)` calls it)
GLOBALS = {"g0": 20, "g1": 21, "f3": 22, "w": 23}
HIDS = {"f0": 10, "f1": 11, "f2": 12, "f3": 13}
# registered operators with logging handlers: a RIGHT-associative and a LEFT-associative calc operator (two levels), a prefix and a
# postfix operator - operands still run left to right, each once, the handler after them
REGOPS = {("I", "~>"): 30, ("I", "<>"): 31, ("P", "!!"): 32, ("S", "+++"): 33}
REGI = {"~>": (107, True), "<>": (105, False)}

def n(x): return ("n", Fraction(x))
RET = [n(0), n(1), n(2), n(5), ("b", True), ("b", False), ("b", True), n(3)]

OLD_OPS = ["+", "==", "&&", "||", "*", "<"]
ALL_OPS = ["+", "-", "*", "/", "%", "<", "<=", ">", ">=", "==", "!=", "&&", "||", "|", "^", "&", "<<", ">>", "beginWith", "endWith", "in"]
SETTERS = ["=", "+=", "-=", "*=", "/=", "%=", "<<=", ">>=", "&=", "^=", "|="]

def leaf(rng):
    q = rng.random()
    if q < 0.35: return ("ref", rng.choice(FN))                       # bare name -> context function call
    if q < 0.6: return ("call", rng.choice(FN + list(GLOBALS)), [])
    if q < 0.8: return ("lit", rng.choice(["1", "2", "true", "false", "0"]))
    return ("ref", rng.choice(["v", "w"]))

def plain_item(rng):
    """what a membership list is usually written with: a literal, a variable, or a bare name bound to a context function"""
    q = rng.random()
    if q < 0.4: return ("lit", rng.choice(["0", "1", "2", "3", "4", "5", "true", "false"]))
    if q < 0.55: return ("ref", rng.choice(["v", "w"]))
    return ("ref", rng.choice(FN))

def rnd_tree(rng, depth, regops=False):
    r = rng.random()
    if depth <= 0 or r < 0.3:
        return leaf(rng)
    if r < 0.47:
        return ("call", rng.choice(FN + list(GLOBALS)), [rnd_tree(rng, depth - 1, regops) for _ in range(rng.randint(1, 3))])
    if r < 0.5:
        return ("call", rng.choice(["min", "max", "sum", "mul"]), [rnd_tree(rng, depth - 1, regops) for _ in range(rng.randint(1, 3))])
    if r < 0.62: return ("tern", rnd_tree(rng, depth - 1, regops), rnd_tree(rng, depth - 1, regops), rnd_tree(rng, depth - 1, regops))
    if r < 0.74:
        op = rng.choice(OLD_OPS) if rng.random() < 0.75 else rng.choice(ALL_OPS)
        return ("nbin" if rng.random() < 0.1 else "bin", op, rnd_tree(rng, depth - 1, regops), rnd_tree(rng, depth - 1, regops))
    if r < 0.78:
        # membership in a list written in place: every item is evaluated, matching or not, in order
        items = [plain_item(rng) for _ in range(rng.randint(1, 4))]
        if rng.random() < 0.3: items[rng.randrange(len(items))] = rnd_tree(rng, depth - 1, regops)
        lhs = rng.choice([plain_item(rng), ("lit", rng.choice(["0", "1", "2", "5"])), rnd_tree(rng, depth - 1, regops)])
        return ("nbin" if rng.random() < 0.3 else "bin", "in", lhs, ("list", items))
    if r < 0.82 and regops:
        q = rng.random()
        if q < 0.5: return ("bin", "~>", rnd_tree(rng, depth - 1, regops), rnd_tree(rng, depth - 1, regops))
        if q < 0.7: return ("bin", "<>", rnd_tree(rng, depth - 1, regops), rnd_tree(rng, depth - 1, regops))
        if q < 0.85: return ("un", "!!", rnd_tree(rng, depth - 1, regops))
        return ("post", rnd_tree(rng, depth - 1, regops), "+++")
    if r < 0.85:
        # plain names next to assignments of those names, in one list or one argument list
        els = [rng.choice([("ref", "v"), ("ref", "w"), ("ref", rng.choice(FN)),
                           ("bin", rng.choice(["=", "+=", "*="]), ("ref", rng.choice(["v", "w"])), ("lit", rng.choice(["1", "2", "5"])))]) for _ in range(rng.randint(2, 5))]
        return ("list", els) if rng.random() < 0.5 else ("call", rng.choice(FN + ["g0", "max"]), els)
    if r < 0.88: return ("list", [rnd_tree(rng, depth - 1, regops) for _ in range(rng.randint(0, 3))])
    if r < 0.91: return ("map", [(rnd_tree(rng, depth - 1, regops), rnd_tree(rng, depth - 1, regops)) for _ in range(rng.randint(1, 2))])
    if r < 0.94: return ("un", rng.choice(["!", "-", "-", "not", "+", "AND", "OR"] if rng.random() < 0.4 else ["!", "-"]), rnd_tree(rng, depth - 1, regops))
    if r < 0.96: return ("post", rnd_tree(rng, depth - 1, regops), rng.choice(["++", "--"]))
    # the target may be a name bound to a context function: reading it is a call (which may fail), the assignment then re-binds it
    return ("bin", rng.choice(["=", "+="]) if rng.random() < 0.6 else rng.choice(SETTERS), ("ref", rng.choice(["v", "w", "v", "w"] + FN)), rnd_tree(rng, depth - 1, regops))

class P:
    prop = "C07"
    rule = ("EXEC of random trees (<= ~40 nodes) whose leaves are calls to logging, stateful context functions (by call and by bare "
            "name) and globally registered functions whose return values depend on their own call count (one of them shadowed by a context function of the same name, one named like a context variable), under every node kind and every "
            "built-in operator, aggregate function and setter (membership lists written in place with matching items before calls), "
            "(operands, call arguments, list elements, map entries key/value, statements, conditionals), and the same trees with an "
            "Err injected at the k-th handler invocation for every k (fault enumeration). Oracle: the call log (handler, arguments) "
            "in order, the result and the final context equal those of the reference semantics. One fresh process per case. "
            "Non-trivial = distinct case with >= 2 handler invocations.")
    assumptions = []
    trusted_extra = ["scripted closures in harness/src/hist.rs log every invocation before running their script"]

    def __init__(self):
        self.skipped = 0

    def generate(self, tier, rng):
        PT = dict(progs.prec_table()); PT.update(REGI)
        ntrees = 400 if tier == "quick" else 20000
        items = []
        # the SAME effectful name in every operand position of one node: each occurrence is its own evaluation
        F = ("ref", "f0"); G = ("call", "f0", [])
        same = []
        for op in ALL_OPS:
            same += [[("bin", op, F, F)], [("bin", op, ("bin", op, F, F), F)], [("nbin", op, F, F)], [("bin", op, G, G)], [("bin", op, F, G)]]
        same += [[("list", [F, F, F])], [("call", "f1", [F, F])], [("map", [(F, F), (F, F)])], [("tern", F, F, F)], [("call", "max", [F, F])],
                 [("bin", "=", ("ref", "v"), ("bin", "-", F, F)), ("ref", "v")], [("un", "-", F), ("post", F, "++")],
                 [("bin", "in", F, ("list", [F, F]))], [("bin", "<=", F, F), ("bin", "=", ("ref", "w"), ("lit", "true"))]]
        # a name read in the same list / argument list / map in which an element to its LEFT assigns it (or re-binds a context
        # function's name to a value): each read sees what the elements before it left behind
        V, W = ("ref", "v"), ("ref", "w")
        asg = lambda tgt, op, val: ("bin", op, tgt, ("lit", val))
        same += [[("list", [asg(V, "=", "2"), V, W])], [("list", [V, asg(V, "+=", "1"), V, asg(V, "+=", "1"), V])],
                 [("call", "f1", [V, asg(V, "+=", "1"), V, asg(V, "+=", "1"), V])], [("call", "g0", [asg(W, "=", "5"), W, V])],
                 [("call", "max", [V, asg(V, "=", "9"), V])], [("list", [F, asg(F, "=", "1"), F, V])], [("list", [W, asg(W, "=", "1"), W, V, asg(V, "=", "0"), V])],
                 [("map", [(asg(V, "=", "2"), V), (V, W)])], [("call", "f2", [("list", [V, asg(V, "*=", "3"), V]), V])],
                 [("list", [V, W, asg(W, "=", "7"), ("call", "f0", [W, V])]), ("list", [V, W])]]
        # chains of the registered operators (right-associative: the tree leans right, the operands still run left to right)
        F1, F2, F3 = ("ref", "f1"), ("ref", "f2"), ("call", "f3", [])
        same += [[("bin", "~>", F, ("bin", "~>", F1, ("bin", "~>", F2, F3)))], [("bin", "~>", F, ("bin", "~>", F1, F2))], [("bin", "~>", F, F1)],
                 [("bin", "+", F, ("bin", "~>", F1, F2))], [("bin", "<>", ("bin", "<>", F, F1), F2)], [("bin", "<>", F, ("bin", "~>", F1, ("bin", "~>", F2, F3)))],
                 [("bin", "~>", ("un", "!!", F), ("bin", "~>", ("post", F1, "+++"), F2))], [("nbin", "~>", F, ("bin", "~>", F1, F2))],
                 [("bin", "=", V, ("bin", "~>", F, ("bin", "~>", F1, F2))), V], [("list", [("bin", "~>", F, ("bin", "~>", F1, F2)), F3])]]
        crafted = list(same)
        for _ in range(ntrees):
            stmts = crafted.pop() if crafted else [rnd_tree(rng, rng.choice([2, 3, 4]), True) for _ in range(rng.choice([1, 1, 2, 3]))]
            handlers = {}
            for name, hid in list(HIDS.items()) + list(GLOBALS.items()) + list(REGOPS.items()):
                handlers[hid] = ("count", [("ret", rng.choice(RET)) for _ in range(rng.randint(1, 4))] + ([("arg", 0)] if rng.random() < 0.3 else []))
            ctx = {"v": ("var", n(4))}
            for name, hid in HIDS.items(): ctx[name] = ("func", hid)
            base = self.mk(stmts, ctx, handlers, PT, ("plain",))
            items.append(base)
            cls, val, fctx, log = speceval.run_program(stmts, ctx, handlers, GLOBALS, REGOPS)
            # inject an Err at every invocation index k (bounded per tree in quick)
            ks = list(range(len(log)))
            if tier == "quick" and len(ks) > 4: ks = rng.sample(ks, 4)
            for k in ks:
                hid = log[k][0]
                idx = sum(1 for (h, _a) in log[:k] if h == hid)
                sc = handlers[hid][1]
                lst = [sc[min(i, len(sc) - 1)] for i in range(idx)] + [("fail",) if k % 5 == 0 else ("fail", k % 5)]      # (Errs of five kinds)
                h2 = dict(handlers); h2[hid] = ("count", lst)
                items.append(self.mk(stmts, ctx, h2, PT, ("fail-at", k)))
        return flow.mk_cases("order", items)

    def mk(self, stmts, ctx, handlers, PT, tag):
        src = "; ".join(progs.render_min(s, PT) for s in stmts)
        ops = ["H:%d:%s" % (hid, speceval.to_proto_script(s)) for hid, s in sorted(handlers.items())]
        ops += ["REGF:%s:%d" % (hx(nm), hid) for nm, hid in GLOBALS.items()]
        ops += ["REGI:%s:%x:0:%d:%d" % (hx(nm), REGI[nm][0], 1 if REGI[nm][1] else 0, hid) if kind == "I" else
                "REG%s:%s:%d" % (kind, hx(nm), hid) for (kind, nm), hid in REGOPS.items()]
        for k, v in ctx.items():
            ops.append("CV:1:%s:%s" % (hx(k), speceval.to_proto_value(v[1])) if v[0] == "var" else "CF:1:%s:%d" % (hx(k), v[1]))
        return (" ".join(ops + ["EXEC:1:" + hx(src)]), (stmts, ctx, handlers, tag, src))

    def show(self, case):
        stmts, ctx, handlers, tag, src = case.meta
        return {"program": src, "fault": tag, "handlers": {h: speceval.to_proto_script(s) for h, s in handlers.items()}}

    def classify(self, case, impl):
        return impl.split(" ")[-1].split(":")[0]

    def nontrivial(self, case, impl):
        return impl.count("(") >= 2

    def compare(self, case, impl, model):
        eq, abst = values.exec_equal(impl.split(" ")[-1], model.split(" ")[-1])
        return None if eq else "log+value+context"

    def extra_coverage(self):
        return {"oracle_skipped_rounding_region": self.skipped}

    def known(self, case, impl, detail):
        return None

    def oracle(self, case, impl):
        d = values.split_exec(impl.split(" ")[-1])
        if d["cls"] not in ("OK", "ERR"): return "violates", "evaluation did not return: " + d["cls"]
        stmts, ctx, handlers, tag, src = case.meta
        cls, val, fctx, log = speceval.run_program(stmts, ctx, handlers, GLOBALS, REGOPS)
        if cls == "SKIP":
            self.skipped += 1; return "ok", ""
        want_log = "L[%s]" % ";".join("%d(%s)" % (h, ",".join(speceval.to_proto_value(a) for a in args)) for h, args in log)
        if d["log"] != want_log and not speceval.log_matches(d["log"], log):
            return "violates", "call log %s, reference order %s" % (d["log"], want_log)
        if cls != d["cls"]:
            return "violates", "reference gives %s, evaluation gave %s" % (cls, d["cls"])
        if cls == "OK" and not evalspec.seq(evalspec.from_proto(values.parse_value(d["value"])), val):
            return "violates", "value %s, reference %s" % (d["value"], val)
        have = dict(values.ctx_items(d["ctx"] or "C{}"))
        for k, v in fctx.items():
            if v[0] == "var":
                if hx(k) not in have or have[hx(k)].startswith("F") or not evalspec.seq(evalspec.from_proto(values.parse_value(have[hx(k)])), v[1]):
                    return "violates", "binding of %s is %s, reference %s" % (k, have.get(hx(k)), v[1])
        return "ok", ""
