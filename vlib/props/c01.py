"""C01 - parsing is total: Ok or Err, never a panic, abort or hang; returned ASTs render."""
import re
from .. import build, core, flow, gens, values
from ..core import hx, unhx

def quadratic(n, op=" + ", lp="( ", rp=" )"):
    x = "a"
    for k in range(2, n):
        x = "a" + op + lp + x + rp + (op + "a") * max(n - k - 2, 0)
    return x

# height amplifiers: level(k) = SLOT( "(" level(k-1) ")" + a + a + ... ), a tall chain whose first primary is the
# parenthesised previous level, placed in one child position of one node kind. The parser's recursion stays below its limit
# (about 3 per level + the chain), the TREE grows by `chain` per level: whatever bounds the nesting has to count the height
# of EVERY child position of every node kind.
SLOTS = {
    "tern_cond": lambda t: t + " ? a : a",
    "tern_mid": lambda t: "c ? " + t + " : a",
    "tern_else": lambda t: "c ? a : " + t,
    "setter_rhs": lambda t: "a = " + t,
    "compound_rhs": lambda t: "a += " + t,
    "infix_rhs": lambda t: "a * (" + t + ")",
    "prefix": lambda t: "-(" + t + ")",
    "prefix_word": lambda t: "not (" + t + ")",
    "postfix": lambda t: "(" + t + ") ++",
    "notin": lambda t: t + " not in [a]",
    "call_arg": lambda t: "f(" + t + ")",
    "call_arg2": lambda t: "f(a, " + t + ")",
    "list_elem": lambda t: "[" + t + "]",
    "list_elem2": lambda t: "[a, " + t + ", a]",
    "map_key": lambda t: "{" + t + " : a}",
    "map_val": lambda t: "{a : " + t + "}",
    "map_val2": lambda t: "{a : a, b : " + t + "}",
}

def amplifier(slot, levels, chain):
    x = "a"
    for _ in range(levels):
        x = SLOTS[slot]("(" + x + ")" + " + a" * chain)
    return x

def amplifier_families():
    for slot in SLOTS:
        for levels, chain in ((2, 40), (3, 100), (3, 200), (30, 60), (40, 120)):
            yield "amp_" + slot, levels * 1000 + chain, amplifier(slot, levels, chain)

def chain_nest_families():
    """a chain in front of a deeply nested operand: the chain grows the tree, the operand the recursion - separately"""
    for k, m in ((100, 200), (10, 240), (250, 3), (128, 126), (200, 54), (254, 1), (255, 1), (1, 254), (1, 255), (3, 253)):
        yield "chain_nest", k * 1000 + m, "a + " * k + "[" * m + "1" + "]" * m
        yield "chain_nest_paren", k * 1000 + m, "(" + "a + " * k + "a) + " + "[" * m + "1" + "]" * m
        yield "chain_nest_tern", k * 1000 + m, "a * " * k + "b ? " + "f(" * m + "1" + ")" * m + " : c"

def deep_families(ns):
    fams = {
        "paren": lambda n: "(" * n + "1" + ")" * n,
        "paren_open": lambda n: "(" * n,
        "brack": lambda n: "[" * n + "]" * n,
        "brack_open": lambda n: "[" * n,
        "brace": lambda n: "{1:" * n + "1" + "}" * n,
        "neg": lambda n: "- " * n + "1",
        "bang": lambda n: "!" * n + "true",
        "not": lambda n: "not " * n + "true",
        "assign": lambda n: "a = " * n + "1",
        "ternary": lambda n: "a ? b : " * n + "c",
        "ternary_mid": lambda n: "a ? " * n + "b" + " : c" * n,
        # whitespace-free: try_parse_op rescans the rest of the run for every name (quadratic), so n is capped
        "assign_tight": lambda n: "a=" * min(n, 10000) + "1",
        "names": lambda n: "a " * n,
        "sum": lambda n: "1" + "+1" * n,
        "sum_sp": lambda n: "1" + " + 1" * n,
        "call": lambda n: "f(" * n + "1" + ")" * n,
        "postfix": lambda n: "1" + " ++" * n,
        "notin": lambda n: "1" + " not in [1]" * n,
        "strings": lambda n: "'a' " * n,
        "semis": lambda n: "1;" * n,
        "list_wide": lambda n: "[" + "1," * n + "1]",
        "mixed": lambda n: "(-[" * n + "1" + "])" * n,
        # nested parenthesised chains: parser recursion stays shallow (depth restored after every sub-parse) but the TREE
        # grows by the chain length at every level - height ~ n^2/2 for input size ~ n^2
        "quadratic": lambda n: quadratic(min(n, 400)),
        "quadratic_not": lambda n: quadratic(min(n, 300), " not in "),
        "quadratic_list": lambda n: quadratic(min(n, 300), " + ", "[", "]"),
    }
    for name, f in fams.items():
        for n in ns:
            yield name, n, f(n)
    # the same shapes with 2-, 3- and 4-byte characters in names and strings, around the nesting limit (whatever the parser does
    # with the TEXT near the place where it gives up - slicing it for a message, say - meets every byte alignment)
    uni = {
        "u_list_str": lambda n, c, pad: "[" + ("\"%s\",[" % (c + pad)) * n + "1" + "]" * (n + 1),
        "u_sum_names": lambda n, c, pad: (" + ".join([c + pad] * (n + 1))),
        "u_call": lambda n, c, pad: ("%s(" % (c + pad)) * n + "1" + ")" * n,
        "u_neg": lambda n, c, pad: ("- " + pad) * 0 + "- " * n + c + pad,
        "u_map": lambda n, c, pad: ("{'%s':" % (c + pad)) * n + "1" + "}" * n,
        "u_paren": lambda n, c, pad: "(" * n + c + pad + ")" * n + " + '" + c * 9 + "'",
        "u_ternary": lambda n, c, pad: ("%s ? %s : " % (c, pad or "b")) * n + c,
    }
    for name, f in uni.items():
        for n in (250, 255, 256, 257, 258, 300):
            for c in ("\u00e9", "\u540d", "\U0001f600"):
                for pad in ("", "a", "ab", "abc"):
                    yield name, n, f(n, c, pad)

class P:
    prop = "C01"
    rule = ("PARSE (parse_expression, then expr() and describe() of a returned AST) of: all sequences of <=2 symbols and a "
            "slice of the 3-symbol sequences over the 47-symbol class alphabet, random symbol strings, single-character "
            "corruptions of valid programs, and 21 deep/long families (nesting, prefix runs, right-assoc chains, ternary "
            "chains, name runs, left-deep sums, calls) at n in {10,100,1000,10000,100000}, 17 height amplifiers (a tall chain nested "
            "through every child position of every node kind: levels x chain in {2x40, 3x100, 3x200, 30x60, 40x120}), each deep case in its own "
            "process on a 2 MiB thread; seven of these shapes with 2-, 3- and 4-byte characters at every byte alignment around the nesting limit; EXEC of programs whose VALUES grow one level per statement (ten shapes x n up to 20000, and doubling widths). Non-trivial = distinct input of more than one character.")
    assumptions = ["stack use is measured on a 2 MiB thread (Rust's default for spawned threads) in a debug build"]
    trusted_extra = []

    def generate(self, tier, rng):
        cases = []
        syms = gens.SYMBOLS
        if tier == "quick":
            strs = list(gens.symbol_strings(syms, 2)) + [a + b + c for a in syms[::3] for b in syms for c in syms[1::4]]
            ns = [10, 30, 50, 100, 255, 256, 257, 300, 1000, 10000, 100000]
            nrand = 3000
        else:
            strs = list(gens.symbol_strings(syms, 3))
            ns = [10, 100, 255, 256, 257, 300, 1000, 10000, 100000, 1000000]
            nrand = 200000
        cases += flow.mk_cases("alpha", ["PARSE:" + hx(s) for s in strs])
        # number spellings at and beyond what a decimal holds: digit counts, fractional digit counts, leading zeros
        nums = []
        for k in (1, 9, 10, 18, 19, 20, 27, 28, 29, 30, 31, 40, 100, 1000):
            nums += ["9" * k, "1" + "0" * k, "0." + "0" * k + "1", "0." + "0" * k + "12", "1." + "0" * k, "0." + "9" * k, "0" * k + "7", "5." + "5" * k,
                     "- 0." + "0" * k + "1 + 1", "[0." + "0" * k + "3]"]
        cases += flow.mk_cases("numbers", ["PARSE:" + hx(s) for s in nums])
        cases += flow.mk_cases("rand", ["PARSE:" + hx(gens.random_string(rng, 16)) for _ in range(nrand)])
        from . import progs
        valid = progs.sample_programs(rng, 300 if tier == "quick" else 20000)
        corr = []
        for s in valid:
            corr.append(s)
            for _ in range(3):
                corr.append(progs.corrupt(rng, s))
        cases += flow.mk_cases("corrupt", ["PARSE:" + hx(s) for s in corr])
        deep = [("PARSE:" + hx(s), (name, n)) for name, n, s in deep_families(ns)]
        deep += [("PARSE:" + hx(s), (name, n)) for name, n, s in amplifier_families()]
        deep += [("PARSE:" + hx(s), (name, n)) for name, n, s in chain_nest_families()]
        cases += flow.mk_cases("!deep", deep)
        # execute(): values that grow one level per STATEMENT (no statement is deep): Value's clone, comparison and drop are
        # recursive, the engine must refuse the value (finding D24, fixed by d4f0af3) - never exhaust the stack
        grow = []
        for n in ([10, 254, 255, 256, 300, 2000, 20000] if tier == "quick" else [10, 100, 254, 255, 256, 257, 300, 1000, 2000, 20000, 200000]):
            for name, first, step, last in (("list", "a=[1];", "a=[a];", "1"), ("map-value", "a={1:2};", "a={1:a};", "1"), ("map-key", "a={1:2};", "a={a:1};", "1"),
                                            ("two-levels", "a=[1];", "a=[[a]];", "1"), ("two-names", "a=[1];b=[2];", "a=[b];b=[a];", "1"),
                                            ("in-call", "a=[1];", "a=[max(1,2),a];", "1"), ("in-branch", "a=[1];", "a=true?[a]:0;", "1"),
                                            ("compared", "a=[1];", "a=[a];", "a==a"), ("in-member", "a=[1];", "a=[a];", "1 in a"),
                                            ("mixed", "a=[1];", "a={'k':[a]};", "[a,a]==[a,a]")):
                grow.append(("EXEC:1:" + hx(first + step * n + last), ("grow-" + name, n)))
        for n in (5, 12, 18):
            grow.append(("EXEC:1:" + hx("a=[1];" + "a=[a,a];" * n + "a==a"), ("grow-wide", n)))
        cases += flow.mk_cases("!grow", grow)
        return cases

    def _split(self, lines):
        deep = [l for l in lines if l.startswith("!")]
        rest = [l for l in lines if not l.startswith("!")]
        return deep, rest

    def run_impl(self, lines):
        deep, rest = self._split(lines)
        res = core.run_impl(rest)
        res.update(core.run_each([build.impl_bin("debug")], deep, timeout=120))
        return res

    def run_model(self, lines):
        deep, rest = self._split(lines)
        res = core.run_model(rest)
        res.update(core.run_each([build.model_bin(), "--table", build.table_path()], deep, timeout=120))
        return res

    def show(self, case):
        if case.meta:
            return "%s(n=%d)" % case.meta
        return [unhx(o.split(":")[1])[:200] for o in case.line.split(" ")[1:]]

    def classify(self, case, impl):
        return impl.split(":", 1)[0][:8]

    def nontrivial(self, case, impl):
        return len(case.line) > 16

    def compare(self, case, impl, model):
        if impl == model:
            return None
        if case.gen == "!grow":
            eq, abst = values.exec_equal(impl, model)
            return None if (eq or abst) else "execute outcome"
        if case.gen == "!deep" and impl.split(":")[0] == model.split(":")[0] == "OK" and len(impl) > 100000:
            return None
        return "parse-outcome+ast+expr+describe"

    def known(self, case, impl, detail):
        return None

    def oracle(self, case, impl):
        c = impl.split(":", 1)[0]
        if c in ("ERR",):
            return "ok", ""
        if c == "OK":
            parts = impl.split(":")
            if len(parts) >= 4 and (parts[2] == "PANIC" or parts[3] == "PANIC"):
                return "violates", "expr()/describe() of the returned AST panicked"
            return "ok", ""
        if c in ("PANIC", "ABORT", "HANG", "MISSING"):
            return "violates", ("execute" if case.gen == "!grow" else "parse_expression") + " did not return: " + c
        return "unknown", impl[:80]
