"""C08 - names and operators dispatch to the handler and binding last registered."""
from fractions import Fraction
from .. import build, core, flow, gens, values
from ..core import hx, unhx
from . import progs, evalspec, speceval

WORDS = ["hi", "lo", "zed", "qq"]
PRECS = [1, 2, 19, 20, 21, 39, 40, 41, 59, 60, 61, 109, 110, 111, 112, 119, 120, 121, 199, 200, 201, 500, 10**9 - 1, 10**9]

def tag(h): return ("s", "h%d" % h)

class P:
    prop = "C08"
    rule = ("one fresh process per history. (a) dispatch: histories of <= 10 steps over register_function / register_prefix_op / "
            "register_infix_op / register_postfix_op (new names, re-registrations, overrides of built-ins, as the very first engine "
            "call or after first use; in half of the histories every call is made on one of three persistent threads), context bindings of the same names as functions or variables, and single-operator probes; every "
            "handler returns a constant naming itself, so the result says which handler ran; oracle: last registration of (kind, name), "
            "else built-in, else error; context function first, a context variable never shadows; a context function (or a registered one) that fails with an error of any of five kinds is the result of the call - nothing is invoked in its place. (b) precedence: 1-4 word operators "
            "registered with precedences drawn from values adjacent to every built-in level, 1 and 10^9, both associativities, then "
            "random trees over built-in and registered operators rendered with the minimal parentheses the registered table requires; "
            "oracle: the intended tree. Non-trivial = distinct history with >= 1 registration and >= 1 probe.")
    assumptions = ["registered names contain no whitespace/delimiter characters; symbolic operator sets stay prefix-closed (else D12)"]
    trusted_extra = []

    def generate(self, tier, rng):
        infix, prefix, postfix, funcs = gens.builtin_ops(build.table_path())
        items = []
        nh = 250 if tier == "quick" else 20000
        fnames = ["foo", "bar", "min", "sum", "Foo", "MIN"]
        # word operators, built-in names, case variants, and a registered symbolic operator starting with each of the
        # fourteen operator characters (+ - * / ^ % & ! = ? : > < |), `?` and `:` included
        inames = ["hi", "+", "==", "in", "lo", "Hi", "+-", "-+", "**", "//", "^^", "%%", "&|", "!!", "=~", "??", ":=", "::", "><", "<>", "|>"]
        pnames = ["neg", "-", "!", "not", "Neg", "??", "::", "**", "=~"]
        snames = ["++", "--", "bang", "Bang", "+!", "?:", "%!", ":>"]      # disjoint from the infix names: a postfix operator is taken first
        for _ in range(nh):
            ops, expect = [], []
            reg = {}          # (kind, name) -> hid
            ctxf, ctxv = {}, {}
            hid = 30
            scripts = []
            steps = rng.randint(2, 10)
            first_is_reg = rng.random() < 0.5
            for step in range(steps):
                r = rng.random()
                if (step == 0 and first_is_reg) or r < 0.45:
                    kind = rng.choice("FIPS")
                    hid += 1
                    scripts.append("H:%d:r%s" % (hid, speceval.to_proto_value(tag(hid))))
                    if kind == "F":
                        nm = rng.choice(fnames); ops.append("REGF:%s:%d" % (hx(nm), hid))
                    elif kind == "I":
                        nm = rng.choice(inames)
                        bp = dict((n, (p, s, r_)) for n, p, s, r_ in infix).get(nm, (300, False, False))
                        ops.append("REGI:%s:%x:0:%d:%d" % (hx(nm), bp[0], 1 if bp[2] else 0, hid))
                    elif kind == "P":
                        nm = rng.choice(pnames); ops.append("REGP:%s:%d" % (hx(nm), hid))
                    else:
                        nm = rng.choice(snames); ops.append("REGS:%s:%d" % (hx(nm), hid))
                    reg[(kind, nm)] = hid; expect.append(None)
                elif r < 0.55:
                    nm = rng.choice(fnames)
                    if rng.random() < 0.5:
                        hid += 1; scripts.append("H:%d:r%s" % (hid, speceval.to_proto_value(tag(hid))))
                        ops.append("CF:1:%s:%d" % (hx(nm), hid)); ctxf[nm] = hid; ctxv.pop(nm, None)
                    else:
                        ops.append("CV:1:%s:%s" % (hx(nm), "n(0,7,0)")); ctxv[nm] = True; ctxf.pop(nm, None)
                    expect.append(None)
                else:
                    kind = rng.choice("FIPS")
                    if kind == "F":
                        nm = rng.choice(fnames + ["nosuch"]); src = "%s(1, 2)" % nm
                        if nm in ctxf: want = tag(ctxf[nm])
                        elif ("F", nm) in reg: want = tag(reg[("F", nm)])
                        elif nm in funcs: want = evalspec.function(nm, [("n", Fraction(1)), ("n", Fraction(2))])
                        else: want = evalspec.ERR
                    elif kind == "I":
                        nm = rng.choice(inames); src = "1 %s [1]" % nm if nm == "in" else "1 %s 2" % nm
                        if ("I", nm) in reg: want = tag(reg[("I", nm)])
                        elif nm in [n for n, *_ in infix]:
                            want = evalspec.infix(nm, ("n", Fraction(1)), ("l", [("n", Fraction(1))]) if nm == "in" else ("n", Fraction(2)))
                        else: want = "PARSE-DEP"      # `1 hi 2` with hi unregistered: two statements `1`, `hi`, `2` -> last value
                    elif kind == "P":
                        nm = rng.choice(pnames); src = "%s true" % nm if nm in ("!", "not") else "%s 5" % nm
                        if ("P", nm) in reg: want = tag(reg[("P", nm)])
                        elif nm in prefix: want = evalspec.prefix(nm, ("b", True) if nm in ("!", "not") else ("n", Fraction(5)))
                        else: want = "PARSE-DEP"
                    else:
                        nm = rng.choice(snames); src = "5 %s" % nm
                        if ("S", nm) in reg: want = tag(reg[("S", nm)])
                        elif nm in postfix: want = evalspec.postfix(nm, ("n", Fraction(5)))
                        else: want = "PARSE-DEP"
                    ops.append("EXEC:1:" + hx(src)); expect.append((src, want))
            if rng.random() < 0.5:
                # the same history with every engine call made on one of three persistent threads (per-thread caches must not
                # make a registration invisible to a thread that used the old handler)
                ops = ["@%s/%s" % (rng.choice("abc"), o) if o.split(":")[0] in ("EXEC", "REGF", "REGI", "REGP", "REGS") else o for o in ops]
            items.append((" ".join(scripts + ops), ("dispatch", len(scripts), expect)))
        # use / re-register on another thread / use again on the first thread (and on a fresh one), for every kind
        probes = {"F": [("foo", "foo(1, 2)"), ("min", "min(1, 2)")], "I": [("hi", "1 hi 2"), ("+", "1 + 2")],
                  "P": [("neg", "neg 5"), ("-", "- 5")], "S": [("bang", "5 bang"), ("++", "5 ++")]}
        for kind, lst in probes.items():
            for nm, src in lst:
                for first_reg in (True, False):
                    scripts = ["H:31:r%s" % speceval.to_proto_value(tag(31)), "H:32:r%s" % speceval.to_proto_value(tag(32))]
                    def reg(h):
                        if kind == "F": return "REGF:%s:%d" % (hx(nm), h)
                        if kind == "I":
                            bp = dict((n, (p, s_, r_)) for n, p, s_, r_ in infix).get(nm, (300, False, False))
                            return "REGI:%s:%x:0:%d:%d" % (hx(nm), bp[0], 1 if bp[2] else 0, h)
                        if kind == "P": return "REGP:%s:%d" % (hx(nm), h)
                        return "REGS:%s:%d" % (hx(nm), h)
                    ops, expect = [], []
                    if first_reg:
                        ops.append("@m/" + reg(31)); expect.append(None)
                    cur = tag(31) if first_reg else None
                    def want_now():
                        if cur is not None: return cur
                        if kind == "F": return evalspec.function(nm, [("n", Fraction(1)), ("n", Fraction(2))]) if nm in funcs else evalspec.ERR
                        if kind == "I": return evalspec.infix(nm, ("n", Fraction(1)), ("n", Fraction(2))) if nm in [n for n, *_ in infix] else "PARSE-DEP"
                        if kind == "P": return evalspec.prefix(nm, ("n", Fraction(5))) if nm in prefix else "PARSE-DEP"
                        return evalspec.postfix(nm, ("n", Fraction(5))) if nm in postfix else "PARSE-DEP"
                    ops.append("@w/EXEC:1:" + hx(src)); expect.append((src, want_now()))
                    ops.append("@m/" + reg(32)); expect.append(None); cur = tag(32)
                    ops.append("@w/EXEC:1:" + hx(src)); expect.append((src, want_now()))
                    ops.append("@x/EXEC:2:" + hx(src)); expect.append((src, want_now()))
                    ops.append("EXEC:1:" + hx(src)); expect.append((src, want_now()))
                    items.append((" ".join(scripts + ops), ("dispatch", len(scripts), expect)))
        # a name re-bound WHILE the arguments of a call of that name are evaluated: a handler invoked for an argument registers the
        # callee (again, or for the first time), or an argument assigns to the callee's name in the context. The call happens
        # after its arguments, so it must see the binding in force then. For operators the model, like the code, fetches the
        # handler before the operands (the correspondence judges those lines).
        T = lambda h: speceval.to_proto_value(tag(h))
        def line(scripts, ops, expect):
            items.append((" ".join(scripts + ops), ("dispatch", len(scripts), expect)))
        line(["H:31:r%s" % T(31), "H:32:r%s" % T(32), "H:40:qF%s.32.rn(0,1,0)" % hx("foo")],
             ["REGF:%s:31" % hx("foo"), "REGF:%s:40" % hx("trig"), "EXEC:1:" + hx("foo(trig())"), "EXEC:1:" + hx("foo(1)")],
             [None, None, ("foo(trig())", tag(32)), ("foo(1)", tag(32))])
        line(["H:32:r%s" % T(32), "H:41:qF%s.32.rn(0,1,0)" % hx("newg")],
             ["REGF:%s:41" % hx("trig"), "EXEC:1:" + hx("newg(1, trig())"), "EXEC:1:" + hx("newg()")],
             [None, ("newg(1, trig())", tag(32)), ("newg()", tag(32))])
        line(["H:31:r%s" % T(31), "H:33:r%s" % T(33)],
             ["REGF:%s:31" % hx("foo"), "CF:1:%s:33" % hx("foo"), "EXEC:1:" + hx("foo(0)"), "EXEC:1:" + hx("foo(foo = 1)"), "EXEC:1:" + hx("foo(2)")],
             [None, None, ("foo(0)", tag(33)), ("foo(foo = 1)", tag(31)), ("foo(2)", tag(31))])
        line(["H:31:r%s" % T(31), "H:33:r%s" % T(33), "H:43:qF%s.31.rn(0,1,0)" % hx("foo")],
             ["CF:1:%s:33" % hx("foo"), "REGF:%s:43" % hx("trig"), "EXEC:1:" + hx("foo(trig(), foo = 2)"), "EXEC:1:" + hx("foo()")],
             [None, None, ("foo(trig(), foo = 2)", tag(31)), ("foo()", tag(31))])
        # the context's function shadows the registered one WHATEVER it returns: an error of any kind - the error of a nested
        # evaluation handed on: an unregistered function, a division by zero, a parse error, a type error - is the call's result;
        # the registered function of that name is not invoked in its place
        for ek in ("e", "E1", "E2", "E3", "E4"):
            for use in ("foo(1)", "foo()", "1 + foo(2)", "[foo(1)]", "x = foo(1); x"):
                line(["H:31:r%s" % T(31), "H:33:%s" % ek], ["REGF:%s:31" % hx("foo"), "CF:1:%s:33" % hx("foo"), "EXEC:1:" + hx(use), "EXEC:2:" + hx("foo(1)")],
                     [None, None, (use, evalspec.ERR), ("foo(1)", tag(31))])
            # ... and the other way round: a registered function that fails is not replaced by anything either
            line(["H:31:%s" % ek, "H:33:r%s" % T(33)], ["REGF:%s:31" % hx("foo"), "CF:2:%s:33" % hx("foo"), "EXEC:1:" + hx("foo(1)"), "EXEC:2:" + hx("foo(1)")],
                 [None, None, ("foo(1)", evalspec.ERR), ("foo(1)", tag(33))])
        # a dotted name is a name of its own: `ns.foo(..)` is not `foo(..)`, before or after `foo` is registered or replaced
        line(["H:31:r%s" % T(31), "H:32:r%s" % T(32), "H:33:r%s" % T(33)],
             ["REGF:%s:31" % hx("foo"), "EXEC:1:" + hx("ns.foo(1)"), "EXEC:1:" + hx("foo(1)"), "REGF:%s:32" % hx("foo"), "EXEC:1:" + hx("ns.foo(1)"),
              "EXEC:1:" + hx("foo(1)"), "REGF:%s:33" % hx("ns.foo"), "EXEC:1:" + hx("ns.foo(1)"), "EXEC:1:" + hx("foo(1)"), "EXEC:1:" + hx("foo.ns(1)"),
              "REGF:%s:31" % hx("foo"), "EXEC:1:" + hx("ns.foo(1)"), "EXEC:1:" + hx("Foo(1)"), "EXEC:1:" + hx("foo (1)")],
             [None, ("ns.foo(1)", evalspec.ERR), ("foo(1)", tag(31)), None, ("ns.foo(1)", evalspec.ERR), ("foo(1)", tag(32)), None, ("ns.foo(1)", tag(33)),
              ("foo(1)", tag(32)), ("foo.ns(1)", evalspec.ERR), None, ("ns.foo(1)", tag(33)), ("Foo(1)", evalspec.ERR), ("foo (1)", tag(31))])
        for kind_, reg_, regact, src in (("P", "REGP:%s:31" % hx("neg"), "U%s.32." % hx("neg"), "neg trig()"),
                                         ("S", "REGS:%s:31" % hx("bang"), "S%s.32." % hx("bang"), "trig() bang"),
                                         ("I", "REGI:%s:12c:0:0:31" % hx("hi"), "I%s.12c.0.0.32." % hx("hi"), "1 hi trig()"),
                                         ("I", "REGI:%s:12c:0:0:31" % hx("hi"), "I%s.12c.0.0.32." % hx("hi"), "trig() hi 1")):
            line(["H:31:r%s" % T(31), "H:32:r%s" % T(32), "H:44:q%srn(0,1,0)" % regact],
                 [reg_, "REGF:%s:44" % hx("trig"), "EXEC:1:" + hx(src), "EXEC:1:" + hx(src)],
                 [None, None, (src, "PARSE-DEP"), (src, tag(32))])
        cases = flow.mk_cases("dispatch", items)
        # (b) precedence of registered operators
        nt = 250 if tier == "quick" else 20000
        items = []
        base = {n: (p, r_) for n, p, s, r_ in infix}
        for _ in range(nt):
            PT = dict(base)
            regs = []
            words = rng.sample(WORDS, rng.randint(1, 4))
            for w in words:
                p = rng.choice(PRECS) if rng.random() < 0.7 else rng.choice([pp + d for pp in (20, 40, 50, 60, 70, 80, 90, 100, 110, 120, 200) for d in (-1, 0, 1)])
                right = rng.random() < 0.4
                PT[w] = (p, right)
                regs.append("REGI:%s:%x:0:%d:0" % (hx(w), p, 1 if right else 0))
            opnames = words * 3 + rng.sample(list(base), 4)
            def tree(d):
                if d <= 0 or rng.random() < 0.25: return ("ref", rng.choice(["a", "b", "c", "d"]))
                r = rng.random()
                if r < 0.8:
                    return ("nbin" if rng.random() < 0.1 else "bin", rng.choice(opnames), tree(d - 1), tree(d - 1))
                if r < 0.9: return ("un", "-", tree(d - 1))
                return ("tern", tree(d - 1), tree(d - 1), tree(d - 1))
            progs_ = []
            for _k in range(4):
                t = tree(rng.choice([2, 3, 4]))
                progs_.append(("PARSE:" + hx(progs.render_min(t, PT)), progs.to_proto(t)))
            ops_ = regs + [p for p, _ in progs_]
            wants = [None] * len(regs) + [w for _, w in progs_]
            # later phases: the SAME words are registered again with another precedence / associativity after the engine
            # has parsed with the old ones (on the same thread, or pinned to one persistent thread): every later parse must
            # group by the latest registration (no table, cache or thread-local copy may keep the earlier binding powers)
            for _phase in range(rng.choice([0, 1, 1, 2])):
                for w in rng.sample(words, rng.randint(1, len(words))):
                    p = rng.choice(PRECS) if rng.random() < 0.5 else rng.choice([pp + d for pp in (20, 40, 50, 60, 70, 80, 90, 100, 110, 120, 200) for d in (-1, 0, 1)])
                    right = rng.random() < 0.4
                    PT[w] = (p, right)
                    ops_.append("REGI:%s:%x:0:%d:0" % (hx(w), p, 1 if right else 0)); wants.append(None)
                for _k in range(3):
                    t = tree(rng.choice([2, 3, 4]))
                    ops_.append("PARSE:" + hx(progs.render_min(t, PT))); wants.append(progs.to_proto(t))
            if rng.random() < 0.3:
                ops_ = ["@a/" + o for o in ops_]
            items.append((" ".join(ops_), ("prec", 0, wants)))
        cases += flow.mk_cases("prec", items)
        return cases

    def show(self, case):
        return [unhx(o.split(":")[-1]) if o.split(":")[0] in ("EXEC", "PARSE") else o for o in case.line.split(" ")[1:]]

    def classify(self, case, impl):
        return impl.split(" ")[-1].split(":")[0]

    def nontrivial(self, case, impl):
        return True

    def compare(self, case, impl, model):
        io, mo = impl.split(" "), model.split(" ")
        if len(io) != len(mo): return "history length"
        for a, b in zip(io, mo):
            if a.startswith(("OK:", "ERR", "PANIC")) and ":L[" in a:
                eq, abst = values.exec_equal(a, b)
                if abst: return None      # the model abstained (known dependency class): the rest of this history is not comparable
                if not eq: return "exec result after history"
            elif a != b: return "parse result after history"
        return None

    def known(self, case, impl, detail):
        return None

    def oracle(self, case, impl):
        outs = impl.split(" ")
        kind, nskip, expect = case.meta
        if any(o in ("PANIC", "ABORT", "DEADLOCK", "MISSING", "SKIP") or o.startswith("PANIC") for o in outs):
            return "violates", "a step did not return: " + " ".join(o[:12] for o in outs)
        res = outs[nskip:]
        if kind == "dispatch":
            for e, o in zip(expect, res):
                if e is None: continue
                src, want = e
                if want == "PARSE-DEP": continue
                d = values.split_exec(o)
                v, det = evalspec.judge(want, d["cls"], d["value"])
                if v == "violates": return v, "%s after this history: %s" % (src, det)
            return "ok", ""
        for want, o in zip(expect, res):
            if want is None: continue
            p = o.split(":")
            if p[0] != "OK" or p[1] != want:
                return "violates", "grouping under the registered table: got %s want %s" % (o[:200], want[:200])
        return "ok", ""
