"""The documented value of every built-in operator and function (an executable spec written from the property texts,
independent of operator.rs): Python values ('n', Fraction) ('s', str) ('b', bool) ('l', [..]) ('m', [(k,v)..]) ('N',)."""
from fractions import Fraction
from ..values import parse_value

MAXM = 2 ** 96 - 1
I64MIN, I64MAX = -2 ** 63, 2 ** 63 - 1
ERR = ("ERR",)
SKIP = ("SKIP",)          # outside what the property fixes (rounding region, short-circuit over a mistyped tail)

def from_proto(v):
    """protocol value tuple (values.parse_value) -> spec value"""
    k = v[0]
    if k == "n":
        q = Fraction(v[2], 10 ** v[3]); return ("n", -q if v[1] else q)
    if k == "s": return ("s", bytes.fromhex(v[1]).decode("utf-8"))
    if k == "b": return ("b", v[1] == "1")
    if k == "l": return ("l", [from_proto(x) for x in v[1]])
    if k == "m": return ("m", [(from_proto(a), from_proto(b)) for a, b in v[1]])
    return ("N",)

def representable(q):
    for s in range(0, 29):
        m = q * 10 ** s
        if m.denominator == 1: return abs(m.numerator) <= MAXM
    return False

def num(q):
    return ("n", q) if representable(q) else SKIP

def seq(a, b):
    """structural equality, numbers compared numerically"""
    if a[0] != b[0]: return False
    if a[0] in ("l",): return len(a[1]) == len(b[1]) and all(seq(x, y) for x, y in zip(a[1], b[1]))
    if a[0] == "m": return len(a[1]) == len(b[1]) and all(seq(x[0], y[0]) and seq(x[1], y[1]) for x, y in zip(a[1], b[1]))
    return a == b

def as_i64(v):
    if v[0] != "n" or v[1].denominator != 1 or not (I64MIN <= v[1].numerator <= I64MAX): return None
    return v[1].numerator

def wrap64(z):
    z &= (1 << 64) - 1
    return z - (1 << 64) if z >= (1 << 63) else z

def trunc_rem(a, b):
    q = abs(a) // abs(b); r = abs(a) - q * abs(b)
    return -r if a < 0 else r

def infix(op, a, b):
    base = op[:-1] if op in ("+=", "-=", "*=", "/=", "%=", "<<=", ">>=", "&=", "^=", "|=") else op
    if op == "=": return b
    if base in ("+", "-", "*", "/", "%"):
        if a[0] != "n" or b[0] != "n": return ERR
        x, y = a[1], b[1]
        if base == "+": return num(x + y) if representable(x + y) else ("OVF", x + y)
        if base == "-": return num(x - y) if representable(x - y) else ("OVF", x - y)
        if base == "*": return num(x * y) if representable(x * y) else ("OVF", x * y)
        if y == 0: return ERR
        if base == "/": return num(x / y) if representable(x / y) else ("OVF", x / y)
        return num(trunc_rem(x, y))
    if base in ("<", "<=", ">", ">="):
        if a[0] != "n" or b[0] != "n": return ERR
        return ("b", {"<": a[1] < b[1], "<=": a[1] <= b[1], ">": a[1] > b[1], ">=": a[1] >= b[1]}[base])
    if base == "==": return ("b", seq(a, b))
    if base == "!=": return ("b", not seq(a, b))
    if base in ("&&", "||"):
        if a[0] != "b" or b[0] != "b": return ERR
        return ("b", (a[1] and b[1]) if base == "&&" else (a[1] or b[1]))
    if base in ("|", "^", "&", "<<", ">>"):
        x, y = as_i64(a), as_i64(b)
        if x is None or y is None: return ERR
        if base == "|": return ("n", Fraction(x | y))
        if base == "^": return ("n", Fraction(x ^ y))
        if base == "&": return ("n", Fraction(x & y))
        if not (0 <= y <= 63): return ERR
        if base == "<<": return ("n", Fraction(wrap64(x << y)))
        return ("n", Fraction(x >> y))
    if base in ("beginWith", "endWith"):
        if a[0] != "s" or b[0] != "s": return ERR
        return ("b", a[1].startswith(b[1]) if base == "beginWith" else a[1].endswith(b[1]))
    if base == "in":
        if b[0] != "l": return ERR
        return ("b", any(seq(item, a) for item in b[1]))
    return None

def prefix(op, a):
    if op in ("-", "+"):
        if a[0] != "n": return ERR
        return ("n", -a[1] if op == "-" else a[1])
    if op in ("!", "not"):
        if a[0] != "b": return ERR
        return ("b", not a[1])
    if op in ("AND", "OR"):
        if a[0] != "l": return ERR
        decide = (op == "OR")
        for i, x in enumerate(a[1]):
            if x[0] != "b":
                return ERR
            if x[1] == decide:
                # the aggregate is decided here; a mistyped element further right is not fixed by the property
                return ("b", decide) if all(y[0] == "b" for y in a[1][i:]) else SKIP
        return ("b", not decide)
    return None

def postfix(op, a):
    if a[0] != "n": return ERR
    q = a[1] + (1 if op == "++" else -1)
    return num(q) if representable(q) else ("OVF", q)

def function(name, args):
    if any(x[0] != "n" for x in args): return ERR
    qs = [x[1] for x in args]
    if name in ("min", "max"):
        if not qs: return ERR
        return ("n", min(qs) if name == "min" else max(qs))
    acc = Fraction(0 if name == "sum" else 1)
    for q in qs:
        acc = acc + q if name == "sum" else acc * q
        if not representable(acc): return SKIP      # an intermediate result leaves the exact range
    return ("n", acc)

def judge(want, cls, value_text):
    """compare the spec's verdict with the impl's (class, value): returns (verdict, detail)"""
    if want is None or want == SKIP: return "ok", ""
    if want == ERR:
        return ("ok", "") if cls == "ERR" else ("violates", "an error was required, got %s %s" % (cls, value_text or ""))
    if want[0] == "OVF":
        # exact result not representable: Err (overflow) or a rounded value close to it, never anything else
        if cls == "ERR": return "ok", ""
        if cls == "OK":
            got = from_proto(parse_value(value_text))
            if got[0] == "n" and abs(got[1] - want[1]) <= abs(want[1]) * Fraction(1, 10 ** 20) + Fraction(1, 10 ** 28):
                return "ok", ""
            return "violates", "result %s is not the (rounded) exact value %s" % (value_text, want[1])
        return "violates", "got " + cls
    if cls != "OK":
        return "violates", "value %s expected, got %s" % (want, cls)
    got = from_proto(parse_value(value_text))
    if not seq(got, want):
        return "violates", "value %s expected, got %s" % (want, value_text)
    return "ok", ""
