"""C18 - describe() renders each node with exactly the descriptor registered for it."""
import itertools
from .. import build, core, flow, gens, values, astproto
from ..core import hx, unhx
from . import progs

KINDS = ["U", "B", "P", "T", "F", "R", "L", "M", "C"]

def mark(tag, args): return "<" + tag + "".join("|" + a for a in args) + ">"

def lit_text(t):
    if t[0] == "num": return values.dec_str(False, t[1], t[2])
    if t[0] == "bool": return "true" if t[1] == "1" else "false"
    s = unhx(t[1]); q = "'" if '"' in s else '"'
    return q + s + q

def describe_spec(t, keys):
    """documented rendering: the descriptor registered for (kind[, name]) if any, else the default"""
    k = t[0]
    d = lambda x: describe_spec(x, keys)
    if k in ("num", "bool", "str"): return lit_text(t)
    if k == "none": return ""
    if k == "un":
        op = unhx(t[1]); r = d(t[2])
        return mark("U" + op, [op, r]) if ("U", op) in keys else op + r
    if k == "bin":
        op = unhx(t[1]); l, r = d(t[2]), d(t[3])
        return mark("B" + op, [op, l, r]) if ("B", op) in keys else l + op + r
    if k == "post":
        op = unhx(t[2]); l = d(t[1])
        return mark("P" + op, [l, op]) if ("P", op) in keys else l + op
    if k == "tern":
        c, a, b = d(t[1]), d(t[2]), d(t[3])
        return mark("T", [c, a, b]) if ("T", "") in keys else c + "?" + a + ":" + b
    if k == "call":
        n = unhx(t[1]); ps = [d(x) for x in t[2]]
        return mark("F" + n, [n] + ps) if ("F", n) in keys else n + "(" + ",".join(ps) + ")"
    if k == "ref":
        n = unhx(t[1])
        return mark("R" + n, [n]) if ("R", n) in keys else n
    if k == "list":
        ps = [d(x) for x in t[1]]
        return mark("L", ps) if ("L", "") in keys else "[" + ",".join(ps) + "]"
    if k == "map":
        kv = [(d(a), d(b)) for a, b in t[1]]
        return mark("M", [x for p in kv for x in p]) if ("M", "") in keys else "{" + ",".join(a + ":" + b for a, b in kv) + "}"
    if k == "stmt":
        ps = [d(x) for x in t[1]]
        return mark("C", ps) if ("C", "") in keys else ";".join(ps)
    raise ValueError(k)

PROGRAMS = ["-a", "!b", "not a", "a+b", "a*b+c", "a == b", "a in [1,2]", "a++", "b--", "a ? b : c", "f(a, 1)", "g()", "a", "b", "[a, 1, 'x']",
            "{a: b, 1: 2}", "a; b", "a = 1; f(a); [a]", "-(a+b)", "f(g(a), [b ? 1 : 2])", "{'k': [a++, -b]}", "a not in [b]", "1.50 + 2", "'q\"q'",
            "(a ? b : c) ? [1] : {2: 3}", "a + b; a - b", "f(a) + g(b)", "b + a", "-b", "a--",
            # the same sub-tree written twice, and sub-trees that differ only in how a number is written (1, 1.0, 1.00 are equal
            # as numbers and are three different texts): every node is rendered from ITS OWN literal
            "a * 0.10 > 5 ? a * 0.1 : 0", "[[1], [1.0], [1.00], [1]]", "f(1.50) + f(1.5) + f(1.50)", "-(1.0) + -(1)", "{1: [2.0], 1.0: [2]}",
            "a + b * 2.0; a + b * 2", "[a++, a++]"]

class P:
    prop = "C18"
    rule = ("one fresh process per configuration: a subset of (kind, name) marker descriptors is registered through the cfg-guarded "
            "DescriptorManager re-export (each marker wraps its arguments in a tag unique to its key), then 30 programs covering all "
            "nine node kinds and two names per named kind are parsed and described. Quick: all 2^9 subsets of kinds with one name each; "
            "thorough adds random (kind, name) sets over 3 names and random programs; both tiers: operator chains with negated infix forms and every node kind on either spine, and random programs over all node kinds, under five configurations. Oracle: a 12-line recursive spec of the documented "
            "rendering. Non-trivial = distinct (configuration, program).")
    assumptions = ["marker descriptors are pure functions of their arguments"]
    trusted_extra = ["hook verif_hooks::DescriptorManager re-export (module descriptor is private)"]

    def generate(self, tier, rng):
        items = []
        name1 = {"U": "-", "B": "+", "P": "++", "F": "f", "R": "a"}
        configs = []
        for bits in range(512):
            configs.append([(k, name1.get(k, "")) for i, k in enumerate(KINDS) if bits >> i & 1])
        if tier != "quick":
            pool = [("U", n) for n in ("-", "!", "not")] + [("B", n) for n in ("+", "*", "==", "in", "=")] + [("P", n) for n in ("++", "--")] + \
                   [("F", n) for n in ("f", "g", "min")] + [("R", n) for n in ("a", "b", "c")] + [(k, "") for k in "TLMC"]
            for _ in range(3000):
                configs.append(rng.sample(pool, rng.randint(0, 8)))
        # near-miss names: a descriptor registered for one name must leave every OTHER name of the same kind alone, however
        # similar (case variants, prefixes/extensions), and the same name under another kind (`-` prefix vs infix)
        near = [[("R", "a")], [("R", "A")], [("R", "ab")], [("R", "Total")], [("R", "total")], [("F", "f")], [("F", "F")], [("F", "ff")],
                [("F", "Scale")], [("U", "and")], [("U", "AND")], [("U", "or")], [("U", "Not")], [("B", "beginwith")], [("B", "beginWith")],
                [("B", "IN")], [("B", "-")], [("U", "-")], [("U", "+")], [("B", "+")], [("P", "++")], [("U", "++")],
                [("R", "A"), ("R", "a")], [("F", "F"), ("F", "f")], [("U", "AND"), ("U", "and")], [("R", "f")], [("F", "a")]]
        near_programs = ["a + A", "A", "ab + a", "Total; total", "f(a) + F(a)", "ff(1); f(1)", "Scale(1, 2) + scale(1, 2)", "AND [a, b]", "OR [a]",
                         "not a", "'ab' beginWith 'a'", "a in [b]", "a - b", "- a", "+ a", "a + b", "a ++", "f + f(f)", "a(a)"]
        PT = progs.prec_table()
        for cfg in near:
            sds = ["SD:%s:%s" % (k, hx(n)) for k, n in cfg]
            items.append((" ".join(sds + ["PARSE:" + hx(p) for p in near_programs]), (set(cfg), len(sds), near_programs)))
        # trees as high as the parser returns them (and one level more, which it must reject): the deepest node is rendered
        # with its descriptor like every other one
        lim = 256
        deep_programs = []
        for k in (lim - 3, lim - 2, lim - 1, lim):
            deep_programs += ["!" * k + "a", "- " * k + "a", "[" * k + "a" + "]" * k, "f(" * k + "a" + ")" * k, "{1:" * k + "a" + "}" * k,
                              "c ? b : " * k + "a", "b = " * k + "a", "[-" * (k // 2) + "a" + "]" * (k // 2), "1 + f(" * (k // 2) + "a" + ")" * (k // 2)]
        # ... and the same statements inside a CHAIN (the chain node adds a level on top of the deepest statement the parser accepts)
        deep_programs += [pre + q + post for q in list(deep_programs) for pre, post in (("x = 1; ", ""), ("", "; a"))]
        for cfg in ([], [("R", "a")], [("U", "!"), ("U", "-")], [("L", "")], [("F", "f")], [("M", "")], [("T", "")], [("B", "=")],
                    [("R", "a"), ("U", "!"), ("U", "-"), ("L", ""), ("F", "f"), ("M", ""), ("T", ""), ("B", "="), ("B", "+")]):
            sds = ["SD:%s:%s" % (k, hx(n)) for k, n in cfg]
            items.append((" ".join(sds + ["PARSE:" + hx(p) for p in deep_programs]), (set(cfg), len(sds), deep_programs)))
        # several threads describing deep trees at the same moment (rounds of eight PARSE calls released together): whatever
        # describe() keeps while it recurses must be per call - every thread gets the full rendering of its own tree
        conc_programs = ["[" * 120 + "a" + "]" * 120, "f(" * 100 + "b" + ")" * 100, "!" * 200 + "c", "{1:" * 90 + "d" + "}" * 90,
                         "- " * 150 + "a", "[" * 250 + "1" + "]" * 250, "c ? b : " * 80 + "a", "[-" * 60 + "b" + "]" * 60]
        for cfg in ([], [("L", ""), ("R", "a")], [("U", "!"), ("U", "-"), ("F", "f")]):
            sds = ["SD:%s:%s" % (k, hx(n)) for k, n in cfg]
            ops, ps = [], []
            for _r in range(25):
                ops += ["||"] + ["PARSE:" + hx(p) for p in conc_programs] + [";;"]
                ps += [None] + conc_programs + [None]
            items.append((" ".join(sds + ops), (set(cfg), len(sds), ps)))
        # operator chains: a negated infix (`x not OP y`, `not (x OP y)`) and every other node kind on the LEFT and on the RIGHT
        # spine of longer chains, left- and right-associative; random programs over all node kinds
        chains = ["a not in b && c", "not (a > b) || c", "c && a not in b", "x not in [1, 2] == flag", "a not in b not in c", "(a not in b) + 1 + 2 + 3",
                  "a + b + c + d + e", "a = b = c = d", "a - b not == c - d && e", "not a || b || c", "-a + b + c", "a++ + b + c", "f(a) + b + c + d",
                  "[a] + b + c", "(a ? b : c) + d + e", "a || b not in c || d not in e || f", "a * b + c * d - e * f", "a == b not beginWith c",
                  "not (not (a in b) && c) || d", "! (a not in b) && c", "a += b not in c", "(a not == b) not == c",
                  # runs of DIFFERENT postfix operators, of prefix operators, and both around one operand
                  "a ++ --", "a -- ++", "(a ++) --", "a ++ -- ++", "- a ++ --", "a ++ -- + b -- ++", "- ! - a", "! - a ++ --", "[a ++ --, b -- ++ --]",
                  "f(a ++ --) -- ++", "{a ++ -- : b -- ++}", "a ++ -- ? b -- ++ : c ++ ++ --"]
        rnd_programs = ["; ".join(progs.render_min(t, PT) for t in progs.gen_stmts(rng, rng.choice([2, 3, 4]))) for _ in range(120 if tier == "quick" else 3000)]
        allk = [(k, name1.get(k, "")) for k in KINDS]
        for cfg in ([], allk, [("U", "not")], [("U", "not"), ("B", "&&"), ("B", "in"), ("B", "+")], [("B", "||"), ("B", "=="), ("B", "+"), ("R", "a")],
                    [("P", "++"), ("P", "--"), ("U", "-")], [("P", "--"), ("U", "!")]):
            sds = ["SD:%s:%s" % (k, hx(n)) for k, n in cfg]
            items.append((" ".join(sds + ["PARSE:" + hx(p) for p in chains + rnd_programs]), (set(cfg), len(sds), chains + rnd_programs)))
        for cfg in configs:
            sds = ["SD:%s:%s" % (k, hx(n)) for k, n in cfg]
            ps = list(PROGRAMS) if tier != "quick" else rng.sample(PROGRAMS[:30], 10) + rng.sample(PROGRAMS[30:], 3)
            if tier != "quick":
                ps += ["; ".join(progs.render_min(t, PT) for t in progs.gen_stmts(rng, 3)) for _ in range(3)]
            items.append((" ".join(sds + ["PARSE:" + hx(p) for p in ps]), (set(cfg), len(sds), ps)))
        return flow.mk_cases("desc", items)

    def show(self, case):
        return {"descriptors": sorted(case.meta[0]), "programs": [p for p in case.meta[2] if p][:5]}

    def classify(self, case, impl):
        return impl.split(" ")[-1].split(":")[0]

    def nontrivial(self, case, impl):
        return True

    def compare(self, case, impl, model):
        return None if impl == model else "describe output"

    def known(self, case, impl, detail):
        return None

    def oracle(self, case, impl):
        keys, nsd, ps = case.meta
        outs = impl.split(" ")[nsd:]
        for src, o in zip(ps, outs):
            if src is None: continue          # a `||` / `;;` marker
            p = o.split(":")
            if p[0] == "ERR": continue
            if p[0] != "OK" or len(p) < 4 or p[3] == "PANIC":
                return "violates", "describe() of %r did not return: %s" % (src, o[:40])
            want = describe_spec(astproto.parse_ast(p[1]), keys)
            got = unhx(p[3])
            if got != want:
                return "violates", "describe() of %r is %r, documented rendering %r" % (src, got, want)
        return "ok", ""
