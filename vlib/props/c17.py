"""C17 - value conversions preserve the value."""
import struct
from fractions import Fraction
from .. import build, core, flow, gens, values
from ..core import hx, unhx
from ..values import mk_num

TYPES = {"i8": (-2**7, 2**7 - 1), "i16": (-2**15, 2**15 - 1), "i32": (-2**31, 2**31 - 1), "i64": (-2**63, 2**63 - 1), "i128": (-2**127, 2**127 - 1),
         "u8": (0, 2**8 - 1), "u16": (0, 2**16 - 1), "u32": (0, 2**32 - 1), "u64": (0, 2**64 - 1), "u128": (0, 2**128 - 1)}

def hz(n): return ("-%x" % -n) if n < 0 else "%x" % n

class P:
    prop = "C17"
    rule = ("CONV: Value::from(n) for all 8- and 16-bit integers (exhaustive), boundary and random 32/64/128-bit integers; "
            "ACC: every accessor (integer, decimal, string, bool, list, float) x every value variant and, for integer(), decimals "
            "m*10^-s for boundary m and every scale 0..28 (integral with trailing zeros, fractional, at and beyond the i64 range); "
            "RTV: From<String/&str/bool/Decimal/Vec> then the matching accessor; CONVF: f32/f64 classes (finite values must read back "
            "equal through float(), a test not a proof). Oracle: exact integer/rational arithmetic. Non-trivial = distinct case.")
    assumptions = ["float -> decimal digit selection inside rust_decimal is tested, not modelled"]
    trusted_extra = []

    def generate(self, tier, rng):
        items = []
        for ty in ("i8", "u8"):
            lo, hi = TYPES[ty]
            for n in range(lo, hi + 1): items.append(("CONV:%s:%s" % (ty, hz(n)), ("conv", ty, n)))
        for ty in ("i16", "u16"):
            lo, hi = TYPES[ty]
            rngs = range(lo, hi + 1) if tier != "quick" else list(range(lo, lo + 50)) + list(range(hi - 50, hi + 1)) + list(range(-50, 50) if lo < 0 else range(0, 100))
            for n in rngs: items.append(("CONV:%s:%s" % (ty, hz(n)), ("conv", ty, n)))
        nrand = 300 if tier == "quick" else 100000
        for ty in ("i32", "u32", "i64", "u64", "i128", "u128"):
            lo, hi = TYPES[ty]
            bnd = {lo, lo + 1, hi, hi - 1, 0, 1, -1 if lo < 0 else 2, 2**96 - 1, 2**96, 2**96 + 1, -(2**96 - 1), -(2**96), 2**64, 2**95, 10**28, 10**29}
            for n in sorted(x for x in bnd if lo <= x <= hi): items.append(("CONV:%s:%s" % (ty, hz(n)), ("conv", ty, n)))
            for _ in range(nrand):
                bits = rng.randint(1, hi.bit_length())
                n = rng.getrandbits(bits)
                if lo < 0 and rng.random() < 0.5: n = -n
                n = max(lo, min(hi, n))
                items.append(("CONV:%s:%s" % (ty, hz(n)), ("conv", ty, n)))
        # accessor x variant matrix
        vals = [mk_num(0, 5, 0), mk_num(1, 15, 1), "s(%s)" % hx("x"), "s()", "b(1)", "b(0)", "l()", "l(%s)" % mk_num(0, 1, 0), "m()", "m(b(1)=N)", "N"]
        # near-miss values: a value of one type that LOOKS like another must still be rejected by the other type's accessor
        vals += ["s(%s)" % hx(t) for t in ("12", "-3.50", "0", "+7", "1_000", "1e2", " 5", "0x10", "true", "false", "True", "[1]", "[]", "{}", "None", "null", "")]
        vals += [mk_num(0, 0, 0), mk_num(0, 1, 0), "l(b(1))", "l(s(%s))" % hx("1"), "m(%s=%s)" % (mk_num(0, 1, 0), mk_num(0, 2, 0))]
        for acc in ("integer", "decimal", "string", "bool", "list", "float"):
            for v in vals: items.append(("ACC:%s:%s" % (acc, v), ("acc", acc, v)))
        ms = [0, 1, 3, 10, 100, 123000, 2**63 - 1, 2**63, 2**63 + 1, 2**64, 2**96 - 1, 10**28, 9223372036854775807000, 9223372036854775808000, 5 * 10**27,
              # a short fraction followed by a long run of zeros (2.5000000000 ...): not an integer at the scales where the zeros run out
              25 * 10**9, 10**9, 15 * 10**18, 35 * 10**17, 125 * 10**26]
        for m in ms:
            for s in range(0, 29):
                for neg in (0, 1):
                    items.append(("ACC:integer:%s" % mk_num(neg, m, s), ("int", neg, m, s)))
        for _ in range(500 if tier == "quick" else 200000):
            s = rng.randint(0, 28); k = rng.randint(0, 19)
            z = rng.getrandbits(rng.randint(1, 64))
            m = z * 10 ** s if rng.random() < 0.6 else rng.getrandbits(90)
            if m <= 2**96 - 1:
                ng = rng.randint(0, 1)
                items.append(("ACC:integer:%s" % mk_num(ng, m, s), ("int", ng, m, s)))
        for v in ["s(%s)" % hx("héllo"), "s()", "b(1)", "b(0)", mk_num(1, 12345, 3), mk_num(0, 2**96 - 1, 28), "l()", "l(s(%s);%s;l(N))" % (hx("a"), mk_num(0, 10, 1))]:
            items.append(("RTV:" + v, ("rtv", v)))
        floats = [0.0, 1.0, -1.0, 0.1, 0.5, 123.456, 1e-10, 1e20, 7.9e28, 2.0**95, 3.141592653589793, 1e-28, 123456789.125]
        for x in floats:
            items.append(("CONVF:f64:%x" % struct.unpack("<Q", struct.pack("<d", x))[0], ("f64", x)))
            items.append(("CONVF:f32:%x" % struct.unpack("<I", struct.pack("<f", x))[0], ("f32", struct.unpack("<f", struct.pack("<f", x))[0])))
        for x in [float("nan"), float("inf"), float("-inf"), 1e40, -1e40, 8e28]:
            items.append(("CONVF:f64:%x" % struct.unpack("<Q", struct.pack("<d", x))[0], ("f64", x)))
        return flow.mk_cases("conv", items)

    def show(self, case):
        return str(case.meta)

    def classify(self, case, impl):
        return impl.split(":")[0]

    def nontrivial(self, case, impl):
        return True

    def compare(self, case, impl, model):
        if case.meta[0] in ("f64", "f32") or (case.meta[0] == "acc" and case.meta[1] == "float"):
            return None       # floats are not modelled
        if case.meta[0] == "int":
            pass
        # zero sign: the protocol canonicalises it
        return None if impl == model else "conversion result"

    def known(self, case, impl, detail):
        m = case.meta
        if m[0] == "conv" and abs(m[2]) >= 2 ** 96:
            return "Known_C17_wide_int: Value::from(n) for an i128/u128 with |n| >= 2^96 yields Number(0) (and i128::MIN panics in debug builds): From cannot fail by signature (D16)"
        if m[0] in ("f64", "f32") and (m[1] != m[1] or abs(m[1]) >= 7.9e28):
            return "Known_C17_float: Value::from of a non-finite or out-of-range float yields Number(0) (D16)"
        return None

    def oracle(self, case, impl):
        m = case.meta
        p = impl.split(":")
        if m[0] == "conv":
            if p[0] != "OK": return "violates", "Value::from(%d as %s) did not return: %s" % (m[2], m[1], p[0])
            v = values.parse_value(p[1])
            if v[0] != "n" or values.num_q(v) != m[2]: return "violates", "Value::from(%d as %s) = %s" % (m[2], m[1], p[1])
            return "ok", ""
        if m[0] == "acc":
            acc, v = m[1], m[2]
            own = {"integer": "n", "decimal": "n", "float": "n", "string": "s", "bool": "b", "list": "l"}[acc]
            if v[0] != own:
                return ("ok", "") if p[0] == "ERR" else ("violates", "%s() accepted %s" % (acc, v))
            if acc == "integer":
                pv = values.parse_value(v); q = values.num_q(pv)
                return ("ok", "") if (p[0] == "OK") == (q.denominator == 1 and -2**63 <= q <= 2**63 - 1) else ("violates", "integer() of %s gave %s" % (v, impl))
            return ("ok", "") if p[0] == "OK" else ("violates", "%s() rejected its own variant %s" % (acc, v))
        if m[0] == "int":
            neg, mant, s = m[1], m[2], m[3]
            q = Fraction(mant, 10 ** s) * (-1 if neg else 1)
            p2 = impl.split(":")
            if q.denominator == 1 and -2**63 <= q.numerator <= 2**63 - 1:
                want = q.numerator
                got = None
                if p2[0] == "OK":
                    t = p2[1]; got = -int(t[1:], 16) if t.startswith("-") else int(t, 16)
                if got != want: return "violates", "integer() of %s*10^-%d gave %s, expected %d" % (mant, s, impl, want)
            elif p2[0] != "ERR":
                return "violates", "integer() accepted the non-integer / out-of-range %s" % q
            return "ok", ""
        if m[0] == "rtv":
            return ("ok", "") if impl == "OK:" + m[1] else ("violates", "round trip of %s gave %s" % (m[1], impl))
        if m[0] in ("f64", "f32"):
            x = m[1]
            if p[0] != "OK": return "violates", "Value::from(float) did not return"
            if x != x or abs(x) >= 7.9e28:
                v = values.parse_value(p[1])
                if v[2] == 0 and x != 0: return "violates", "Value::from(%r) = 0" % x
                return "ok", ""
            back = struct.unpack("<d", struct.pack("<Q", int(p[2], 16)))[0] if p[2] != "ERR" else None
            if m[0] == "f64" and back != x: return "violates", "Value::from(%r).float() = %r" % (x, back)
            # rust_decimal::from_f32 keeps 7 significant digits: agreement to f32 precision (relative 2^-23) is what is tested
            if m[0] == "f32" and (back is None or abs(back - x) > abs(x) * 2.0 ** -23): return "violates", "Value::from(%r as f32).float() = %r" % (x, back)
            return "ok", ""
        return "ok", ""
