"""C10 - tokens tile the input and carry the exact source text."""
import itertools, re
from .. import build, core, flow, gens
from ..core import hx, unhx

WS = set(" \t\r\n")
SPECIAL = set("+-*/^%&!=?:><|")
DELIM = set("()[]{}")

def parse_lex(out):
    """'T[k.txt.a.b,...]:TERM' -> (tokens, term) or None"""
    m = re.match(r"^T\[(.*)\]:(\w+)$", out)
    if not m:
        return None
    toks = []
    if m.group(1):
        for t in m.group(1).split(";"):
            parts = t.split(".")
            k = parts[0]; a = int(parts[-2]); b = int(parts[-1]); txt = ".".join(parts[1:-2])
            toks.append((k, txt, a, b))
    return toks, m.group(2)

class P:
    prop = "C10"
    rule = ("LEX of: all sequences of <=3 symbols over a 47-symbol alphabet with one representative per tokenizer "
            "character class (quick; <=4 over a sub-alphabet in thorough), every built-in operator prefix followed by "
            "every class, random multi-byte strings, programs written without blanks (a word / string / number, one or two one-character tokens, a number directly followed by a sign and a number), and strings lexed under randomly extended operator sets "
            "(fresh process each). Non-trivial = more than one character and distinct input text.")
    trusted_extra = ["hook verif_hooks::tokenize drives the private Tokenizer to EOF (add-only, cfg-guarded)"]
    assumptions = ["inputs are valid UTF-8 (guaranteed by &str)",
                   "operator sets that are not prefix-closed are the known finding D12 (longest-match clause only)"]

    def __init__(self):
        self.infix, self.prefix, self.postfix, self.funcs = [], [], [], []

    def ops_of(self, case):
        """operator set in force for the LEX ops of this case: builtin + registrations in the line"""
        if not self.infix:
            self.infix, self.prefix, self.postfix, self.funcs = gens.builtin_ops(build.table_path())
        ops = set(n for n, *_ in self.infix) | set(self.prefix) | set(self.postfix) | {"?", ":"}
        for op in case.line.split(" ")[1:]:
            p = op.split(":")
            if p[0] in ("REGI", "REGP", "REGS"):
                ops.add(unhx(p[1]))
        return ops

    def generate(self, tier, rng):
        cases = []
        syms = gens.SYMBOLS
        if tier == "quick":
            strs = list(gens.symbol_strings(syms, 2)) + [a + b + c for a in syms[::2] for b in syms for c in syms[1::3]]
        else:
            strs = list(gens.symbol_strings(syms, 3))
        cases += flow.mk_cases("alpha", ["LEX:" + hx(s) for s in strs])
        # operator prefix chains followed by every class
        infix, prefix, postfix, _ = gens.builtin_ops(build.table_path())
        names = sorted(set([n for n, *_ in infix] + prefix + postfix + ["?", ":"]))
        chain = []
        for n in names:
            for k in range(1, len(n) + 1):
                for s in syms:
                    chain.append(n[:k] + s)
                    chain.append("x " + n[:k] + s + " y")
        cases += flow.mk_cases("opchain", ["LEX:" + hx(s) for s in chain])
        nrand = 3000 if tier == "quick" else 200000
        cases += flow.mk_cases("rand", ["LEX:" + hx(gens.random_string(rng, 14)) for _ in range(nrand)])
        # programs written WITHOUT blanks: a word / string / number, one or two one-character tokens, a number directly followed
        # by a sign and another number (a number may contain `e`/`E` and a sign only after that letter: what the token BEFORE the
        # number ended with must not matter)
        tight = []
        for w in ("price", "e", "E", "rate", "SCALE", "true", "x", "10", "1e", "'se'", "\"E\"", "in", "note", "2E"):
            for mid in ("*", "/", "(", ",", "[", "?", ":", "-", "+", "*(", "=[", "!", ")", "]", "}", ";", "%", "<", "&"):
                for d in ("2", "20", "0", "2.5", "2e", "9"):
                    for sign in "+-":
                        tight.append("%s%s%s%s1" % (w, mid, d, sign))
        tight += ["price*2-1", "(rate)*3+1", "[size,1-0]", "true?1-0:2", "f(e,1+x)", "SCALE/4-2", "cost*2-1", "price * 2-1", "price*20-1", "price+=2-1", "2-1",
                  "e+1", "1e+1", "1e5", "a1e+1", "1-e", "1e-e", "x=1e;2-1", "'e'2-1"]
        cases += flow.mk_cases("tight", ["LEX:" + hx(t_) for t_ in tight])
        # extended operator sets: fresh process per history
        nh = 60 if tier == "quick" else 3000
        hist = []
        pool_sym = ["<->", "+++", "=>", "**", "!!", "<>", "%%", "->", "|>", "::", "??", ":=", "?:", ":>", "?=", "+-+", "&&&",
                    # symbolic operators that continue with characters outside the fixed operator set
                    "=~", "!~", "-~", "<$>", "+x", "*.", "=a="]
        # word operators, also non-ASCII ones whose byte length exceeds the character count (and the length of every built-in)
        pool_word = ["hi", "xor", "nand", "is", "like", "IN", "notin", "be", "大于等于", "estáVacío", "größerAlsOderGleich", "не", "≥≥"]
        for _ in range(nh):
            regs = []
            for _ in range(rng.randint(1, 3)):
                kind = rng.choice(["I", "P", "S"])
                name = rng.choice(pool_sym + pool_word)
                if kind == "I":
                    regs.append("REGI:%s:%x:0:%d:0" % (hx(name), rng.choice([1, 55, 110, 111, 300]), rng.randint(0, 1)))
                elif kind == "P":
                    regs.append("REGP:%s:0" % hx(name))
                else:
                    regs.append("REGS:%s:0" % hx(name))
            lex = []
            for _ in range(6):
                parts = [rng.choice(pool_sym + pool_word + syms) for _ in range(rng.randint(1, 6))]
                sep = rng.choice(["", " ", " ", ""])
                lex.append("LEX:" + hx(sep.join(parts)))
            hist.append(" ".join(regs + lex))
        cases += flow.mk_cases("extops", hist)
        return cases

    def show(self, case):
        return [unhx(o.split(":")[1]) if o.startswith("LEX:") else o for o in case.line.split(" ")[1:]]

    def classify(self, case, impl):
        if impl in ("MISSING", "ABORT", "HANG"): return impl
        r = impl.split(" ")[-1]
        return r.rsplit(":", 1)[-1] if r.startswith("T[") else r

    def nontrivial(self, case, impl):
        return len(case.line) > 20

    def compare(self, case, impl, model):
        return None if impl == model else "token-stream"

    def known(self, case, impl, detail):
        if detail.startswith("longest-match") and "not-prefix-closed" in detail:
            return "Known_C10_not_prefix_closed: greedy operator extension misses a registered operator whose proper prefix is not an operator (D12)"
        return None

    def oracle(self, case, impl):
        """the tiling / text / classification predicate of the property, evaluated on the impl's tokens alone"""
        if impl in ("MISSING", "ABORT", "HANG") or impl.startswith("PANIC"):
            return "violates", "tokenizer did not return: " + impl
        ops = self.ops_of(case)
        outs = impl.split(" ")
        k = 0
        for op in case.line.split(" ")[1:]:
            out = outs[k] if k < len(outs) else "MISSING"
            k += 1
            if not op.startswith("LEX:"):
                continue
            s = unhx(op.split(":")[1])
            if out == "PANIC":
                return "violates", "tokenizer panicked on %r" % s
            r = parse_lex(out)
            if r is None:
                return "unknown", "unparsable output"
            toks, term = r
            b = s.encode("utf-8")
            pos = 0
            for (kind, txt, a, e) in toks:
                if not (0 <= a < e <= len(b)):
                    return "violates", "span out of bounds/empty %r in %r" % ((a, e), s)
                if a < pos:
                    return "violates", "spans not increasing in %r" % s
                try:
                    gap = b[pos:a].decode("utf-8"); body = b[a:e].decode("utf-8")
                except UnicodeDecodeError:
                    return "violates", "span off a character boundary in %r" % s
                if any(ch not in WS for ch in gap):
                    return "violates", "non-whitespace gap %r in %r" % (gap, s)
                rest = b[e:].decode("utf-8", errors="replace")
                if kind in ("op", "ref", "func", "comma", "semi", "delim"):
                    if unhx(txt) != body:
                        return "violates", "text %r != slice %r" % (unhx(txt), body)
                if kind == "str":
                    if len(body) < 2 or body[0] != body[-1] or body[0] not in "\"'" or unhx(txt) != body[1:-1] or body[0] in body[1:-1]:
                        return "violates", "string token %r" % body
                if kind == "bool":
                    if body not in ("true", "True", "false", "False") or (txt == "1") != (body in ("true", "True")):
                        return "violates", "bool token %r" % body
                if kind == "num" and not body[0].isdigit():
                    return "violates", "number token %r" % body
                if kind in ("ref", "func"):
                    if body in ("true", "True", "false", "False"):
                        return "violates", "keyword lexed as name"
                    if (kind == "func") != (rest.lstrip(" \t\r\n").startswith("(")):
                        return "violates", "function/reference classification of %r before %r" % (body, rest[:5])
                    # a word operator must be recognised when it is a whole word
                    word = re.match(r"[^ \t\r\n()\[\]{},;:]*", b[a:].decode("utf-8", errors="replace")).group(0)
                    if word in ops and body[0] not in SPECIAL:
                        return "violates", "whole-word operator %r lexed as a name" % word
                if kind == "op":
                    if body[0] in SPECIAL:
                        # greedy: cannot be extended by one more character
                        if rest and (body + rest[0]) in ops:
                            return "violates", "operator %r could be extended by %r" % (body, rest[0])
                        # longest registered operator that prefixes the remaining input
                        run = body + rest
                        longest = max((o for o in ops if run.startswith(o)), key=len, default=None)
                        if longest is not None and len(longest) > len(body):
                            closed = all(longest[:j] in ops for j in range(1, len(longest)))
                            return "violates", "longest-match: %r lexed, %r registered (%s)" % (
                                body, longest, "prefix-closed" if closed else "not-prefix-closed")
                    else:
                        word = re.match(r"[^ \t\r\n()\[\]{},;:]*", b[a:].decode("utf-8", errors="replace")).group(0)
                        if body != word or body not in ops:
                            return "violates", "word operator %r is not the whole word %r / not registered" % (body, word)
                pos = e
            if term == "ERR":
                # a lexical error must have a cause: where the tokens stop, a digit run that IS a plain decimal of at most 20 digits
                # (scanned as the documented rule says: digits, dots, e/E, and a sign only right after e/E) is no cause
                tail = b[pos:].decode("utf-8", errors="replace").lstrip(" \t\r\n")
                if tail[:1].isdigit():
                    j = 1
                    while j < len(tail) and (tail[j].isdigit() or tail[j] in ".eE" or (tail[j] in "+-" and tail[j - 1] in "eE")): j += 1
                    run = tail[:j]
                    if re.fullmatch(r"[0-9]+(\.[0-9]*)?", run) and sum(ch.isdigit() for ch in run) <= 20:
                        return "violates", "the well-formed number %r is rejected in %r" % (run, s)
            if term == "EOF":
                tail = b[pos:].decode("utf-8", errors="replace")
                if any(ch not in WS for ch in tail):
                    return "violates", "EOF before the end of input: %r left in %r" % (tail, s)
        return "ok", ""
