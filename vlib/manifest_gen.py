"""Writes /verif/MANIFEST.json from the table below (kept in one place so it stays valid)."""
import json, os
VERIF = os.path.dirname(os.path.dirname(os.path.abspath(__file__)))

def C(text, note, technique, design):
    return dict(text=text, note=note, technique=technique, design=design)

TIE = ("Tie to the code, checked on every run: the hand-written Coq model is extracted to OCaml and run against the real crate "
       "(Rust harness, hooks on) on the same generated inputs / histories; every disagreement and every output that fails the "
       "property's own executable oracle is reported with the input as replay. ")

CLAIMED = {
 "C01": C("Proof (Coq). Proved for every operator table and every string: the tokenizer model never panics and its fuel always suffices "
          "(C01_lexer_total); the parser model never panics (C01_parser_no_panic, C01_no_panic), makes progress in every successful sub-parse (C01_progress) "
          "and therefore terminates - the explicit fuel is never exhausted (C01_terminates), and the outcome is the same for every larger fuel (C01_fuel_irrelevant) - so parsing returns Ok or Err (C01_total); every returned tree is "
          "at most MAX_DEPTH+1 high (C01_ast_height), which bounds the recursion of Clone/Drop/exec/expr/describe; the nesting guard refuses at MAX_DEPTH "
          "(C01_depth_guard). All by mutual induction over the eight parser functions. For execute: every list and map a program builds is nested at most MAX_DEPTH deep, whatever the context held and the handlers returned (C01_built_values_are_bounded, after fix d4f0af3 for finding D24), which bounds the recursion of Value's clone / comparison / drop. Partial only in that stack BYTES are measured, not modelled. " + TIE +
          "24 deep/long input families (incl. nested parenthesised chains whose tree height is quadratic in the nesting) at n up to 100 000, each in its own "
          "process on a 2 MiB thread.",
          "Coq kernel; Lexer.v/Parser.v/Printer.v hand-written and tied by correspondence; stack bytes are a property of rustc's frames "
          "(measured, not modelled).", "Coq proof (invariants, progress and height bound by mutual induction over the parser model) + differential correspondence + abort detection in child processes", "6/C01"),
 "C02": C("Proof (Coq). THE GROUPING THEOREM (C02_round_trip, lemma (B), Lemmas/PrattFull.v): for an ARBITRARY operator table in which `?`/`:` are "
          "unregistered and EVERY well-formed tree (names, literals, infix operators, `x not OP y`, prefix, postfix, conditionals, calls, lists, maps; any size "
          "and shape within the parser's depth limit, given exactly by the function `need`), parsing the printer model's token image - parentheses exactly where "
          "the documented precedence/associativity rule demands them - returns exactly that tree, all tokens consumed. Proved by strong induction over trees with a "
          "continuation-style loop invariant, on the very parser model the correspondence ties to parser.rs. The premises are evaluated on every tree of every run "
          "(evidence: round_trip_theorem_side_conditions). Also proved and re-checked against generated facts on every run: the operator table dumped from the impl "
          "equals README.md's table (+ `in`), setters are exactly the right-associative level-20 operators (C02_table, C02_fixity_sets, C02_table_wf); the two-"
          "operator, prefix, postfix and `not` clauses for arbitrary tables (C02_two_operators, C02_prefix_tighter_than_infix, C02_postfix_tighter_than_prefix, "
          "C02_not_infix); parentheses override the default grouping, for every tree with explicit parenthesis nodes (C02_parens_override); the built-in table meets all hypotheses (C02_builtins_wf). EVERY ACCEPTED PARSE IS THE DOCUMENTED GROUPING "
          "(C02_every_accepted_parse_is_the_documented_grouping, from Lemmas/PrattComplete.v): the tree of any accepted text is well-formed, its minimal explicit spelling is "
          "grammatical and parses back to it - the parser has no grouping of its own. Every run additionally decides grouping by an executable spec of the "
          "documented rules against impl and model: all ordered operator pairs x {plain, not} x 3 shapes exhaustively + random trees. " + TIE,
          "Coq kernel + vm_compute for the generated-fact equalities; Parser.v/Printer.v/Etoks.v hand-written and tied by correspondence; the documented grouping "
          "rules as Python oracle (vlib/props/progs.py).",
          "Coq proof (parse o print = id by induction over trees, arbitrary table) + generated-fact theorems + oracle-checked differential correspondence", "6/C02"),
 "C03": C("Proof (Coq) at handler level: for ALL operand pairs a wrongly typed operand of any of the 24 numeric/bit/ordering operators, of "
          "||, &&, beginWith, endWith, in is an error (C03_type_errors, by case analysis not sampling), no coercion (C03_no_coercion), boolean "
          "logic / equality / membership are the documented functions (C03_logic), bit results are the 64-bit two's-complement wrap "
          "(C03_twos_complement); division - rust_decimal's div_impl transcribed at integer level and compared mantissa-and-scale on every run - "
          "returns the exact quotient when it says so and otherwise a value within half a unit in its last place (C03_division_exact_when_reported, "
          "C03_division_correctly_rounded: loop invariant q*D + r = A*10^k, half-even rounding on every exit, unscale removes only factors of ten); "
          "the order of decimals is a total preorder and min / max return an argument that no argument undercuts / exceeds (C03_order_is_total_preorder, C03_min_max); "
          "`%` is the truncated remainder with the sign of the dividend, exactly, at the common scale (C03_remainder_is_truncated; outside the known-finding region D21); "
          "decimal exactness of + - * % in C09. " + TIE + "Oracle: an independent denotation with exact rationals, every operator x "
          "every pair of a 46-value pool.", "Coq kernel; Value.v transcribes operator.rs/function.rs handlers; rust_decimal modelled (contract).",
          "Coq case-analysis proofs over the handler model + oracle-checked differential correspondence", "6/C03"),
 "C04": C("Proof (Coq) at handler level: division/remainder by zero, decimal overflow, a shift count outside 0..=63, a non-integral or "
          "out-of-i64 operand of a bit operator and empty min/max are errors for ALL operands (C04_div_rem_by_zero, C04_overflow_is_err, "
          "C04_shift_count, C04_bit_operand, C04_empty_aggregates); an accepted shift is the arithmetic one (C04_shift_ok); an exact decimal "
          "result is unmodified (C04_fit_no_wrap). THE ENGINE NEVER PANICS (C04_engine_never_panics, C04_exec_never_panics): for every program text, context, "
          "registry contents and nesting of handler re-entry, with handlers that do not themselves panic (the built-ins in particular), execute / exec return a "
          "value or an error - never a panic or deadlock - and leave every lock free and unpoisoned (induction over evaluator, scripts and fuel; the parser's part "
          "is C01). The impl is run in BOTH debug and release builds and the two must agree. " + TIE,
          "Coq kernel; debug + release builds of the harness; rust_decimal modelled.", "Coq proofs over the handler model + two-profile differential correspondence", "6/C04"),
 "C05": C("Proof (Coq). NO JUNK (C05_grammar_sound, lemma (C), Lemmas/Grammar.v): for every operator table with positive infix precedences, whatever the parser "
          "model accepts is derivable in the documented lenient grammar Gprog (literals, names, calls, lists/maps with optional trailing comma, parentheses, prefix/"
          "postfix/infix operators, `x not OP y`, conditionals, statements with optional `;`) and the returned tree is the tree of that derivation - no token dropped, "
          "none read as another, every delimiter and separator matched by spelling; proved by induction on the fuel over all eight parser functions. Hence anything "
          "outside the grammar is answered Err (C05_outside_grammar_rejected, with C01's no-panic and termination), in particular a program starting with a stray "
          "comma/semicolon/closing delimiter/non-prefix operator or ending with an operator lacking its operand, an opening delimiter or a comma "
          "(C05_bad_start_rejected, C05_bad_end_rejected); the dumped built-in table meets the hypothesis (C05_builtin_table_positive). Lexical clauses: an unterminated "
          "string and a malformed digit run are lexical errors for every table (C05_unterminated_string, C05_malformed_number), a lexical error anywhere makes the whole "
          "parse an error (C05_lexical_error_rejected), expect() succeeds only on exactly the expected token (C05_expect_exact). On every run every accepted input (all "
          "token sequences up to length 3-4 over 24 representative tokens incl. quoted separators, and corruptions) is also checked against an independent recogniser "
          "of the leniently read grammar and against the token multiset of its AST. " + TIE,
          "Coq kernel; the grammar relation G is the specification (read it in Lemmas/Grammar.v); in_L recogniser in vlib/props/c05.py as run-time oracle.",
          "Coq proof (parser sound w.r.t. the grammar relation, all tables) + exhaustive token-sequence correspondence against an independent recogniser", "6/C05"),
 "C06": C("Proof (Coq) over the evaluator model for ARBITRARY handlers: x op= e binds exactly the handler's result in the state after e and "
          "yields None (C06_assign), fails and binds nothing when the handler fails (C06_assign_fails), touches one name of one context (C06_frame), "
          "a non-name target is an error (C06_non_name), unbound reads None (C06_read), programs run in order, value of the last statement, None when "
          "empty, state at the failure (C06_program). " + TIE + "Oracle: reference interpreter written from the property text; value and the caller's "
          "context after exec.", "Coq kernel; Eval.v transcribes parser.rs exec_*; contexts as association lists.",
          "Coq proofs (one-step characterisations of exec) + oracle-checked differential correspondence", "6/C06"),
 "C07": C("Proof (Coq) for ARBITRARY handlers: the unselected branch of a conditional is irrelevant to value, state and log (C07_lazy); once a part "
          "fails the enclosing list / program / call / conditional / operator returns that failure with exactly the state at the failure, whatever stands "
          "to its right (C07_stop); operands left then right, handler last (C07_operands_in_order); every handler invocation logged once before its "
          "script runs (C07_call_logged); list elements, statements and map entries (key before value) run first-then-rest, each from the state its predecessor left, "
          "and the values are assembled in that order (C07_sequences_left_to_right); the call log is append-only under evaluation - never an entry removed, reordered or rewritten (C07_log_append_only, "
          "by a generic invariant principle over the whole evaluator, Lemmas/ExecInv.v). " + TIE + "Fault enumeration: an Err injected at every invocation index of random trees; the call log is "
          "compared with a reference semantics.", "Coq kernel; Eval.v; scripted logging closures in the harness.",
          "Coq independence proofs over exec + fault-enumeration correspondence on call logs", "6/C07"),
 "C08": C("Proof (Coq): last registration wins and other names are untouched in all four registries (C08_last_wins), a registration before first use "
          "survives init (C08_register_before_first_use, C08_init_idempotent), call dispatch = context function, else global, never shadowed by a "
          "variable (C08_dispatch), binding powers fit i32 up to 10^9 and separate ANY two distinct precedences, adjacent included (C08_binding_powers, "
          "C08_adjacent_precedences). Grouping under arbitrary registered tables: by the executable spec on each run (see C02). " + TIE +
          "Histories in fresh processes, half of them with calls spread over persistent threads (use / re-register elsewhere / use again).",
          "Coq kernel; registries as association lists (HashMap insert/get).", "Coq proofs over the registry/dispatch model + history correspondence in fresh processes", "6/C08"),
 "C09": C("Proof (Coq) about the decimal MODEL (rust_decimal is a modelled dependency): ordering/equality compare the denoted rationals at the "
          "common scale (C09_compare), + and - are the exact sum at the larger scale whenever classified exact (C09_add_exact, C09_sub_is_add_neg), * is the "
          "exact product with the scales added (C09_mul_exact), the exact region is exactly 96 bits / 28 digits (C09_fit_complete). Literals: every digit string with at most one "
          "point whose digits denote a number below 2^96 with at most 28 fractional digits evaluates to exactly those digits and that scale (C09_literal, "
          "proved about the transcription of both phases of the crate's parser); a foreign character invalidates the literal (C09_bad_char). " + TIE + "Mantissa AND scale compared on 4 000+ operand pairs biased to carries "
          "and scale differences; exact rational oracle.", "Coq kernel; Decimal.v = contract of rust_decimal 1.31.0 measured against the crate; `%` outside the known class D21.",
          "Coq proofs over integer-scaled decimals + mantissa/scale correspondence with an exact-rational oracle", "6/C09"),
 "C10": C("Proof (Coq): for every operator table and every string, the model tokenizer never panics, its tokens cover non-empty segments on character "
          "boundaries whose text is exactly that segment (strings: between the quotes), spans strictly increase, gaps and the tail at EOF are whitespace "
          "(Props/C10.v: C10_total, C10_text, C10_increasing, C10_gaps, C10_slice_model); the character classes and the dispatch on the first character are, for every "
          "character, those translated from tokenizer.rs's source text on every run (C10_char_classes_are_source). " + TIE + "~35k inputs per quick run through the cfg-guarded tokenize hook.",
          "Coq kernel; longest-match for operator sets that are not prefix-closed is the known finding D12.",
          "Coq proof of a tiling invariant over the tokenizer model + differential correspondence", "6/C10"),
 "C11": C("Proof (Coq). WHITESPACE NEVER CHANGES THE PARSE (C11_whitespace_invariance, C11_whitespace_tokens; Lemmas/LexerWs.v): for every input, every table "
          "whose operators contain no whitespace and whose word operators consist of name characters (the dumped built-in table does: C11_builtin_table_lex_ok), and every "
          "re-spacing of the gaps around its tokens - whitespace added between two touching tokens, the amount changed where some was, leading/trailing whitespace added or "
          "removed; names not operator words, as the property states - the tokenizer model yields the same token kinds and payloads, hence the same parse; by one-token "
          "stability lemmas for each scanner (operator longest-match loop, number, string, word/name with call look-ahead) and induction over the token stream. Also "
          "proved: gaps are whitespace only (C11_gaps_are_whitespace), the four blanks are skipped alike, string payloads are verbatim (C11_strings_verbatim), the "
          "call look-ahead skips blanks (C11_call_lookahead_skips_blanks), a parenthesised operand yields exactly the inner expression's tree and must be closed "
          "(C11_parens_transparent, C11_parens_must_close). REDUNDANT PARENTHESES NEVER CHANGE THE PARSE (C11_redundant_parens, C11_extra_parens_same_parse; "
          "Lemmas/PrattParen.v): for every table and every syntax tree with explicit parenthesis nodes that has the parentheses the grammar needs and ANY others around ANY "
          "subexpressions, nested to any depth, the parser returns the tree with the parentheses forgotten (same induction as lemma (B), on ptrees). The model-to-code tie "
          "is decided on each run: every gap of 600 accepted programs rewritten, every subexpression wrapped in 1/2/5 pairs of parentheses, ASTs compared. " + TIE,
          "Coq kernel; token spans from the hook.",
          "Coq proof (tokenizer invariant under re-spacing, all inputs) + parser lemmas + metamorphic correspondence (layout and parenthesis variants)", "6/C11"),
 "C12": C("Proof (Coq). THE ROUND TRIP THROUGH TEXT IS A THEOREM (C12_round_trip_text = lemma (A) + lemma (B)): for every operator table passing a computable "
          "print check (tbl_print_okb; the dumped built-in table does: C12_builtin_table_print_ok) and every tree meeting the premises of lemma (B) whose leaves are "
          "lexically sane (psaneb: names are identifiers that are neither keywords nor operator words, numbers non-negative and in range, a string without both "
          "quote characters), api_parse (expr t) = Ok t, hence expr is idempotent. Lemma (A) (Lemmas/LexPrint.v, LexPrintExpr.v): the tokenizer model reads the "
          "printer model's text as the printer's token image - completeness lemmas for every token shape (operators by greedy prefix extension, words, names with "
          "the call look-ahead, numbers through the decimal print/read round trip, strings, separators) composed along the printer's layout by induction over the "
          "tree. Lemma (B): parsing that token image gives back the tree (C12_round_trip_tokens). Proving (A) exposed defect D22 (operator words before , ; :), "
          "repaired by fix c0513cb. THE ROUND TRIP FOR EVERYTHING parse_expression ACCEPTS (C12_round_trip_of_every_accepted_text): for every table "
          "passing two computable checks (the built-in one does), api_parse s = Ok t and lexically sane leaves give api_parse (expr t) = Ok t and idempotence - "
          "no premise about nesting, height or well-formedness is left, because every tree the parser returns has an accepted spelling within the nesting "
          "limit (Lemmas/PrattComplete.v, the converse of the Pratt round trip, by induction over the parser's eight functions) and the printer needs the "
          "least nesting of all spellings. AN ACCEPTED PROGRAM'S RENDERING IS ACCEPTED (C12_rendering_of_an_accepted_spelling_reparses, Lemmas/RoundTrip.v + "
          "LeastNesting.v): for every table, every tree and EVERY spelling p of it that the grammar accepts (any redundant parentheses, `not (x OP y)`) "
          "within the nesting limit, the tokens - and for lexically sane trees the text - that the printer writes are parsed back to the tree, because the "
          "printer's parenthesisation needs the least nesting of all spellings (C12_printer_needs_least_nesting); this was false before fixes f0353e2 "
          "(exact parentheses) and 9cbfd9a (nesting limit counts recursion only) - defect D23, the second half found by the failing proof. "
          "The computable premises are evaluated by the extracted model on EVERY tree of every run (evidence: "
          "round_trip_theorem_side_conditions). Also proved: quote choice, the `x not OP y` spelling, parenthesisation of conditional / infix / postfix operands. "
          "Every run additionally decides the round trip on: every infix operator under every other on either side in plain and `not` form, prefix/postfix over "
          "all compound operand kinds, strings with either quote, registered word operators in front of every separator, re-registration histories (levels next to and "
          "on the built-in ones), programs at the nesting limit (redundant parentheses, chains in front of deep operands, 85 height amplifiers), random trees. " + TIE,
          "Coq kernel; Printer.v transcribes the expr family, Lexer.v the tokenizer; both tied to the code by the correspondence.",
          "Coq proof (tokenizer o printer = token image, parser o token image = id) + per-tree computable premises + exhaustive-nesting round-trip correspondence", "6/C12"),
 "C13": C("Proof (Coq), partial (runtime trusted). For ANY number of threads, ANY programs and EVERY schedule of the interleaving model (once-cell gate, "
          "atomic registry accesses): no thread inside a call ever sees a partially initialised table (C13_init_atomic), some thread can always step (C13_no_deadlock), "
          "an un-interleaved call has its sequential result and effect (C13_solo_call_sequential), the schedule is the only non-determinism (C13_step_deterministic). "
          "Tie: forced initialisation interleavings through the init-probe hook (5 stages), races of 2-8 first calls, re-registration windows; every result must be one "
          "the sequential model yields under some order (all permutations evaluated).",
          "Coq kernel; Rust memory model, std Mutex and once_cell trusted; interleavings inside one parse are raced not forced (known finding D20).",
          "Coq invariant proofs over an interleaving model + forced-interleaving correspondence", "6/C13"),
 "C14": C("Proof (Coq), partial. For ALL handler scripts (any nesting of parse / execute / register_* / lock-the-context), programs and re-entry depths: "
          "evaluation never returns Deadlock and leaves every lock free and unpoisoned (C14_no_deadlock, C14_locks_released: induction over the evaluator, scripts and fuel), "
          "a handler can lock its context and register (C14_handler_can_lock_context, C14_handler_can_register). Tie: 189 scenarios (7 handler kinds x 9 actions x depth 1-3) "
          "in fresh processes under an 8 s watchdog.", "Coq kernel; where the Rust code takes/releases its mutexes is established by the scenarios, not by guard-lifetime analysis.",
          "Coq invariant proof over the lock discipline of the evaluator model + scenario correspondence under a watchdog", "6/C14"),
 "C15": C("Proof (Coq), partial. Whatever a handler does (Err or panic at any invocation) no lock is left held or poisoned (C15_locks_clean*), the fault is logged "
          "once and propagates unchanged with exactly the state at the fault through every enclosing node (C15_handler_fault, C15_propagates), a faulting assignment binds "
          "nothing (C15_faulting_assignment_binds_nothing). Tie: fault enumeration - Err and panic at every invocation index of programs over all six handler kinds, then a "
          "follow-up battery on the same context, another context and another thread.", "Coq kernel; panics observed with catch_unwind.",
          "Coq invariant proofs + fault-enumeration correspondence", "6/C15"),
 "C16": C("Proof (Coq): parsing changes nothing but init (C16_parse_pure) and depends only on text and tables (C16_parse_deterministic), an assignment touches one "
          "name of one context and neither registries nor log (C16_assignment_frame); evaluating ANY program on context c leaves every other context "
          "untouched unless a handler itself evaluates there (C16_other_contexts_untouched, generic invariant over the evaluator); THE RESULT DEPENDS ONLY ON TEXT, OWN CONTEXT AND "
          "REGISTRATIONS (C16_unrelated_state_is_invisible, C16_ast_reevaluation; relational principle Lemmas/ExecRel.v): two states agreeing on registrations, handler scripts, "
          "lock sets and every context but d (and on the call history only if some handler counts its invocations) give every program on a context other than d the same result "
          "and agreeing final states, whatever the program and the handlers do; the model has no hidden state by construction - a cache inside the crate is what the tie looks for: "
          "histories over 3 contexts vs each context's own calls (reference semantics), the same calls concurrently, repeated evaluation, and 700 failing evaluations on one "
          "persistent thread followed by probes.", "Coq kernel.", "Coq frame lemmas + history / concurrency / soak correspondence", "6/C16"),
 "C17": C("Proof (Coq): integer() returns n exactly for every decimal denoting an integer n in the i64 range whatever its scale, and an error otherwise "
          "(C17_integer_complete, C17_integer_sound), Value::from(n) is exact for |n| < 2^96 (C17_from_int; beyond: known finding, C17_wide_int_known), every accessor accepts "
          "exactly its own variant (C17_accessors). Floats: tested only. " + TIE, "Coq kernel; float digit selection inside rust_decimal not modelled.",
          "Coq proofs over the conversion model + exhaustive 8/16-bit and boundary correspondence", "6/C17"),
 "C18": C("Proof (Coq) for ARBITRARY descriptor functions: each node is rendered by the descriptor of its own (kind, name) applied to its children's renderings, else the "
          "documented default (C18_own_key, C18_defaults), and the rendering depends on the table only through keys occurring in the tree (C18_frame). " + TIE +
          "All 2^9 subsets of kinds with marker descriptors x programs covering all kinds.", "Coq kernel; DescriptorManager reached through the cfg-guarded re-export.",
          "Coq proofs over describe for arbitrary descriptors + exhaustive marker-subset correspondence", "6/C18"),
}

NOT_YET = {}

def main():
    props = [json.loads(l) for l in open(os.path.join(VERIF, "properties.jsonl"))]
    checks, na = [], []
    for p in props:
        pid = p["id"]
        if pid in CLAIMED:
            c = CLAIMED[pid]
            checks.append({
                "property_id": pid,
                "quick_cmd": "python3 bin/check %s --tier quick" % pid,
                "thorough_cmd": "python3 bin/check %s --tier thorough" % pid,
                "evidence_file": "/verif/evidence/%s.json" % pid,
                "replay_cmd_template": "python3 bin/check %s --replay {path}" % pid,
                "engine": "coq-model+correspondence",
                "level_claimed": {"category": "proof", "text": c["text"], "design_ref": c["design"]},
                "level_note": c["note"],
                "technique": c["technique"],
            })
        else:
            na.append({"property_id": pid, "reason": NOT_YET.get(pid, "check not built yet in this round (model and correspondence under construction); not a claim that the technique cannot apply")})
    m = {
        "version": 1,
        "setup_cmd": "sh bin/setup",
        "hooks": {
            "guard": "expression_engine_verif",
            "enable": "RUSTFLAGS=\"--cfg expression_engine_verif\" cargo build --offline (harness crate /verif/harness with a path dependency on /repo)",
            "baseline_off_cmd": "cd /repo && cargo test --workspace --no-fail-fast --offline",
            "source_commits": ["7cc0ceb", "e725166"],
            "add_only": True,
        },
        "engines": [{"name": "coq-model+correspondence", "path": "/verif/coq, /verif/ocaml, /verif/harness, /verif/vlib",
                     "serves_properties": sorted(CLAIMED), "kind_free_text": "Coq 8.16 model + theorems; extracted OCaml model runner; Rust harness on the real crate; Python driver"}],
        "checks": checks,
        "notes": "See DESIGN.md. Known findings: known_findings.json.",
        "not_applicable": na,
    }
    with open(os.path.join(VERIF, "MANIFEST.json"), "w") as f:
        json.dump(m, f, indent=1)
    print("MANIFEST: %d checks, %d not_applicable" % (len(checks), len(na)))

if __name__ == "__main__":
    main()
