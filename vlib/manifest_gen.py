"""Writes /verif/MANIFEST.json from the table below (kept in one place so it stays valid)."""
import json, os
VERIF = os.path.dirname(os.path.dirname(os.path.abspath(__file__)))

CLAIMED = {
 "C10": dict(
   text="Proof (Coq): for every operator table and every string, the model tokenizer never panics, its tokens cover "
        "non-empty segments on character boundaries whose text is exactly that segment (strings: between the quotes), spans "
        "strictly increase, gaps and the tail at EOF are whitespace (Props/C10.v: C10_total, C10_text, C10_increasing, C10_gaps). "
        "The model is tied to tokenizer.rs by running both on ~33k inputs per quick run through the cfg-guarded tokenize hook; "
        "the property's own predicate is also evaluated on the impl's tokens alone.",
   note="Coq kernel; hand-written Lexer.v checked against the impl by correspondence (exhaustive over a class alphabet up to "
        "length 3, random strings, extended operator sets); longest-match for operator sets that are not prefix-closed is the "
        "known finding D12.",
   technique="Coq proof of a tiling invariant over the tokenizer model + differential correspondence model/impl",
   design="6/C10"),
}

NOT_YET = {}

def main():
    props = [json.loads(l) for l in open(os.path.join(VERIF, "properties.jsonl"))]
    checks, na = [], []
    for p in props:
        pid = p["id"]
        if pid in CLAIMED:
            c = CLAIMED[pid]
            checks.append({
                "property_id": pid,
                "quick_cmd": "python3 bin/check %s --tier quick" % pid,
                "thorough_cmd": "python3 bin/check %s --tier thorough" % pid,
                "evidence_file": "/verif/evidence/%s.json" % pid,
                "replay_cmd_template": "python3 bin/check %s --replay {path}" % pid,
                "engine": "coq-model+correspondence",
                "level_claimed": {"category": "proof", "text": c["text"], "design_ref": c["design"]},
                "level_note": c["note"],
                "technique": c["technique"],
            })
        else:
            na.append({"property_id": pid, "reason": NOT_YET.get(pid, "check not built yet in this round (model and correspondence under construction); not a claim that the technique cannot apply")})
    m = {
        "version": 1,
        "setup_cmd": "sh bin/setup",
        "hooks": {
            "guard": "expression_engine_verif",
            "enable": "RUSTFLAGS=\"--cfg expression_engine_verif\" cargo build --offline (harness crate /verif/harness with a path dependency on /repo)",
            "baseline_off_cmd": "cd /repo && cargo test --workspace --no-fail-fast --offline",
            "source_commits": ["7cc0ceb", "e725166"],
            "add_only": True,
        },
        "engines": [{"name": "coq-model+correspondence", "path": "/verif/coq, /verif/ocaml, /verif/harness, /verif/vlib",
                     "serves_properties": sorted(CLAIMED), "kind_free_text": "Coq 8.16 model + theorems; extracted OCaml model runner; Rust harness on the real crate; Python driver"}],
        "checks": checks,
        "notes": "See DESIGN.md. Known findings: known_findings.json.",
        "not_applicable": na,
    }
    with open(os.path.join(VERIF, "MANIFEST.json"), "w") as f:
        json.dump(m, f, indent=1)
    print("MANIFEST: %d checks, %d not_applicable" % (len(checks), len(na)))

if __name__ == "__main__":
    main()
