"""Build step shared by every check: impl_run from /repo's working tree (hooks on), the registry dump,
the generated Coq facts, the Coq development, the extracted model runner. Serialised by a file lock."""
import fcntl, hashlib, json, os, re, subprocess, sys, time

VERIF = os.path.dirname(os.path.dirname(os.path.abspath(__file__)))
REPO = os.environ.get("VERIF_REPO", "/repo")
BUILD = os.path.join(VERIF, "build")
COQ = os.path.join(VERIF, "coq")
TARGET = os.path.join(BUILD, "target")
GUARD = "--cfg expression_engine_verif"
ENV = dict(os.environ, CARGO_NET_OFFLINE="true", RUSTFLAGS=GUARD)

class BuildError(Exception):
    def __init__(self, stage, log):
        super().__init__(stage)
        self.stage = stage
        self.log = log

def sh(cmd, cwd=None, timeout=1800, env=None):
    p = subprocess.run(cmd, cwd=cwd, shell=isinstance(cmd, str), stdout=subprocess.PIPE, stderr=subprocess.STDOUT,
                       timeout=timeout, env=env or ENV, text=True, errors="replace")
    return p.returncode, p.stdout

def write_if_changed(path, text):
    old = None
    if os.path.exists(path):
        with open(path) as f:
            old = f.read()
    if old != text:
        os.makedirs(os.path.dirname(path), exist_ok=True)
        with open(path, "w") as f:
            f.write(text)
        return True
    return False

def impl_bin(profile="debug"):
    # bin/coverage.sh points this at a coverage-instrumented build of the same harness (a diagnostic, not a check)
    if os.environ.get("VERIF_IMPL_BIN"):
        return os.environ["VERIF_IMPL_BIN"]
    return os.path.join(TARGET, profile, "impl_run")

def model_bin():
    return os.path.join(BUILD, "ocaml", "model_run")

def table_path():
    return os.path.join(BUILD, "table.txt")

def cargo_build(profile):
    cmd = ["cargo", "build", "--offline", "--target-dir", TARGET]
    if profile == "release":
        cmd.append("--release")
    rc, out = sh(cmd, cwd=os.path.join(VERIF, "harness"))
    if rc != 0:
        raise BuildError("cargo-" + profile, out)

def coq_str(h):
    bs = bytes.fromhex(h).decode("utf-8")
    return "[" + "; ".join(str(ord(c)) for c in bs) + "]"

def gen_impl_table():
    """Gen/ImplTable.v: the built-in registries as dumped from the impl through the hook."""
    rows = [l.split() for l in open(table_path()).read().splitlines() if l.strip()]
    infix = [r for r in rows if r[0] == "I"]
    def names(k):
        return "[" + "; ".join(coq_str(r[1]) for r in rows if r[0] == k) + "]"
    inf = ";\n    ".join("(%s, {| ic_prec := %s; ic_setter := %s; ic_right := %s |})" % (
        coq_str(r[1]), r[2], "true" if r[3] == "1" else "false", "true" if r[4] == "1" else "false") for r in infix)
    text = ("(* GENERATED on every run by vlib/build.py from `impl_run --dump-table` (hook dump_registries). *)\n"
            "From EE Require Import OpTable.\nOpen Scope N_scope.\n\n"
            "Definition builtin_table : optable := {|\n  t_infix := [\n    %s];\n  t_prefix := %s;\n  t_postfix := %s\n|}.\n\n"
            "Definition builtin_functions : list str := %s.\n" % (inf, names("P"), names("S"), names("F")))
    return write_if_changed(os.path.join(COQ, "Gen", "ImplTable.v"), text)

def gen_doc_table():
    """Gen/DocTable.v: the precedence table of README.md (BinaryExpression section)."""
    readme = open(os.path.join(REPO, "README.md"), encoding="utf-8").read()
    m = re.search(r"\| Operator\s*\| Precedence \| Desc \|\n\|[-| ]+\|\n((?:\|.*\|\n)+)", readme)
    rows = []
    if m:
        for line in m.group(1).splitlines():
            cells = [c.strip() for c in re.split(r"(?<!\\)\|", line)[1:-1]]
            if len(cells) >= 2 and cells[1].isdigit():
                rows.append((cells[0].replace("\\|", "|"), int(cells[1])))
    body = ";\n    ".join("(%s, %d%%Z)" % ("[" + "; ".join(str(ord(c)) for c in name) + "]", p) for name, p in rows)
    text = ("(* GENERATED on every run by vlib/build.py from /repo/README.md (BinaryExpression precedence table). *)\n"
            "From EE Require Import OpTable.\nOpen Scope N_scope.\n\n"
            "Definition doc_table : list (str * Z) := [\n    %s].\n" % body)
    return write_if_changed(os.path.join(COQ, "Gen", "DocTable.v"), text)

def gen_impl_consts():
    """Gen/ImplConsts.v: constants and the binding-power formula translated from the source text of /repo on every run
    (parser.rs MAX_DEPTH; operator.rs InfixOpManager::get_precidence). A shape the translator does not recognise yields
    `recognised := false`, which breaks the theorems that compare these with the hand-written model."""
    parser = open(os.path.join(REPO, "src", "parser.rs"), encoding="utf-8").read()
    oper = open(os.path.join(REPO, "src", "operator.rs"), encoding="utf-8").read()
    ok = True
    m = re.search(r"const\s+MAX_DEPTH\s*:\s*usize\s*=\s*(\d+)\s*;", parser)
    max_depth = m.group(1) if m else "0"
    ok = ok and bool(m)
    # the two guards compare with `>` (strictly greater): depth and height may reach MAX_DEPTH itself
    guards = re.findall(r"if\s+self\.(depth|height)\s*(>=|>)\s*MAX_DEPTH", parser)
    strict = sorted(guards) == [("depth", ">"), ("height", ">")]
    ok = ok and strict
    body = re.search(r"fn\s+get_precidence\s*\(&self,\s*op:\s*&str\)\s*->\s*\(i32,\s*i32\)\s*\{(.*?)\n    \}", oper, re.S)
    mul, left, right, unreg = "0", "0", "0", ("0", "0")
    if body:
        b = body.group(1)
        m1 = re.search(r"let\s+l_bp\s*=\s*config\.0\s*\*\s*(\d+)\s*;", b)
        m2 = re.search(r"InfixOpAssociativity::LEFT\s*\{\s*r_bp\s*=\s*l_bp\s*([+-])\s*(\d+)\s*;", b)
        m3 = re.search(r"InfixOpAssociativity::RIGHT\s*\{\s*r_bp\s*=\s*l_bp\s*([+-])\s*(\d+)\s*;", b)
        m4 = re.search(r"is_err\(\)\s*\{\s*return\s*\(\s*(-?\d+)\s*,\s*(-?\d+)\s*\)\s*;", b)
        m5 = re.search(r"\(\s*l_bp\s*,\s*r_bp\s*\)\s*$", b.strip())
        if m1 and m2 and m3 and m4 and m5:
            mul = m1.group(1); left = m2.group(1).replace('+', '') + m2.group(2); right = m3.group(1).replace('+', '') + m3.group(2)
            unreg = (m4.group(1), m4.group(2))
        else:
            ok = False
    else:
        ok = False
    # where the parser's recursion is counted: `self.enter()?` once in parse_primary, once in parse_op, and once in
    # parse_op_inner (the branches of a conditional) - and nowhere else (the iterations of the operator loop do not recurse)
    def fn_body(name):
        m = re.search(r"\n    fn\s+%s\s*\(.*?\n    \}\n" % name, parser, re.S)
        return m.group(0) if m else ""
    enters = [len(re.findall(r"self\.enter\(\)\?", fn_body(n))) for n in ("parse_primary", "parse_op", "parse_op_inner")]
    total_enters = len(re.findall(r"self\.enter\(\)\?", parser))
    # run-time values: exec_list and exec_map hand what they built to `bounded`, which refuses a value nested beyond MAX_DEPTH
    vb_sites = [len(re.findall(r"Self::bounded\(", fn_body(n))) for n in ("exec_list", "exec_map")]
    vb_limit = bool(re.search(r"fn\s+bounded\s*\(value:\s*Value\)\s*->\s*Result<Value>\s*\{\s*if\s+value\.nested_beyond\(MAX_DEPTH\)\s*\{\s*return\s+Err\(Error::TooDeep\);", parser))
    def z(v): return "(%s)%%Z" % v
    text = ("(* GENERATED on every run by vlib/build.py from the source text of /repo/src/parser.rs and operator.rs. *)\n"
            "From Coq Require Import ZArith NArith.\nOpen Scope N_scope.\n\n"
            "Definition recognised : bool := %s.\n"
            "Definition impl_max_depth : N := %s.\n"
            "Definition impl_bp (prec : Z) (right : bool) : Z * Z :=\n"
            "  let l_bp := (prec * %s)%%Z in (l_bp, if right then (l_bp + %s)%%Z else (l_bp + %s)%%Z).\n"
            "Definition impl_bp_unregistered : Z * Z := (%s, %s).\n"
            "(* calls of enter() in parse_primary, parse_op, parse_op_inner; and in the whole file *)\n"
            "Definition impl_enter_sites : N * N * N * N := (%s, %s, %s, %s).\n"
            "(* `Self::bounded(` in exec_list, in exec_map; and whether `bounded` compares the nesting with MAX_DEPTH *)\n"
            "Definition impl_value_bound_sites : N * N := (%s, %s).\n"
            "Definition impl_value_bound_is_max_depth : bool := %s.\n"
            % ("true" if ok else "false", max_depth, mul, z(right), z(left), z(unreg[0]), z(unreg[1]), enters[0], enters[1], enters[2], total_enters,
               vb_sites[0], vb_sites[1], "true" if vb_limit else "false"))
    return write_if_changed(os.path.join(COQ, "Gen", "ImplConsts.v"), text)

_ESC = {"t": 9, "r": 13, "n": 10, "'": 39, '"': 34, "\\": 92, "0": 0}
def _rust_char(lit):
    """'x' / '\\t' -> code point, or None"""
    m = re.fullmatch(r"'(\\.|[^\\'])'", lit.strip())
    if not m: return None
    body = m.group(1)
    if body.startswith("\\"):
        return _ESC.get(body[1])
    return ord(body)

def _rust_bool_to_coq(expr):
    """a boolean expression over `ch`: char literals, ==, <=, ||, &&, parentheses -> Coq bool term over (ch : N), or None"""
    toks = re.findall(r"'(?:\\.|[^\\'])'|\|\||&&|<=|==|\(|\)|[A-Za-z_][A-Za-z_0-9]*|\S", expr)
    pos = [0]
    def peek(): return toks[pos[0]] if pos[0] < len(toks) else None
    def eat():
        t = peek(); pos[0] += 1; return t
    def atom():
        t = peek()
        if t == "(":
            eat(); e = disj()
            if eat() != ")": raise ValueError
            return "(" + e + ")"
        if re.fullmatch(r"is_\w+_char", t or ""):
            # a call of another character-class helper on the same character
            eat()
            if (eat(), eat(), eat()) != ("(", "ch", ")"): raise ValueError
            return "(impl_%s ch)" % t
        a = eat(); op = eat(); b = eat()
        def val(x):
            if x == "ch": return "ch"
            v = _rust_char(x)
            if v is None: raise ValueError
            return str(v)
        if op == "==": return "(%s =? %s)" % (val(a), val(b))
        if op == "<=": return "(%s <=? %s)" % (val(a), val(b))
        raise ValueError
    def conj():
        e = atom()
        while peek() == "&&":
            eat(); e = "(%s && %s)" % (e, atom())
        return e
    def disj():
        e = conj()
        while peek() == "||":
            eat(); e = "(%s || %s)" % (e, conj())
        return e
    try:
        e = disj()
        if pos[0] != len(toks): return None
        return e
    except Exception:
        return None

def _rust_pat_to_coq(pat):
    """a match pattern on a char: 'a' | 'b' | '0'..='9' (optionally `_x @ ...`) -> Coq bool term, or None"""
    pat = re.sub(r"^_?\w+\s*@\s*", "", pat.strip())
    alts = []
    for alt in re.findall(r"'(?:\\.|[^\\'])'\s*\.\.=\s*'(?:\\.|[^\\'])'|'(?:\\.|[^\\'])'", pat):
        if "..=" in alt:
            lo, hi = [x.strip() for x in alt.split("..=")]
            a, b = _rust_char(lo), _rust_char(hi)
            if a is None or b is None: return None
            alts.append("((%d <=? ch) && (ch <=? %d))" % (a, b))
        else:
            v = _rust_char(alt)
            if v is None: return None
            alts.append("(ch =? %d)" % v)
    rest = re.sub(r"'(?:\\.|[^\\'])'|\.\.=|\||\s", "", pat)
    if rest or not alts: return None
    e = alts[0]
    for a in alts[1:]:
        e = "(%s || %s)" % (e, a)
    return e

def gen_impl_chars():
    """Gen/ImplChars.v: the character classes of tokenizer.rs translated from its source text on every run: the four
    is_*_char helpers and the arms of Tokenizer::next (which character starts which kind of token, in which order)."""
    src = open(os.path.join(REPO, "src", "tokenizer.rs"), encoding="utf-8").read()
    ok = True
    defs = []
    for fn in ("is_digit_char", "is_whitespace_char", "is_delim_char", "is_param_char", "is_word_end_char"):
        m = re.search(r"fn\s+%s\s*\(ch:\s*char\)\s*->\s*bool\s*\{\s*return\s+(.*?);\s*\}" % fn, src, re.S)
        e = _rust_bool_to_coq(" ".join(m.group(1).split())) if m else None
        if e is None:
            ok = False; e = "false"
        defs.append("Definition impl_%s (ch : N) : bool := %s." % (fn, e))
    # both loops that delimit an operator word (try_parse_op, operator_token) stop at is_word_end_char
    if len(re.findall(r"if\s+is_word_end_char\(ch\)\s*\{\s*break;", src)) != 2:
        ok = False
    # the arms of next(): Some((start, PATTERN)) => self.HANDLER(start)
    body = re.search(r"self\.cur_token\s*=\s*match\s+self\.next_one\(\)\s*\{(.*?)\}\?;", src, re.S)
    arms = []
    if body:
        for m in re.finditer(r"Some\(\(\s*(?:start|_start)\s*,\s*(.*?)\)\)\s*=>\s*self\.(\w+)\(", body.group(1), re.S):
            arms.append((" ".join(m.group(1).split()).rstrip(",").strip(), m.group(2)))
    expected = ["special_op_token", "delim_token", "number_token", "string_token", "semicolon_token", "comma_token", "other_token"]
    if [h for _, h in arms] != expected:
        ok = False
        arms = [("'\\0'", h) for h in expected]
    for pat, h in arms[:-1]:
        e = _rust_pat_to_coq(pat)
        if e is None:
            ok = False; e = "false"
        defs.append("Definition impl_arm_%s (ch : N) : bool := %s." % (h, e))
    text = ("(* GENERATED on every run by vlib/build.py from the source text of /repo/src/tokenizer.rs. *)\n"
            "From Coq Require Import NArith Bool.\nOpen Scope N_scope.\n\n"
            "Definition chars_recognised : bool := %s.\n%s\n" % ("true" if ok else "false", "\n".join(defs)))
    return write_if_changed(os.path.join(COQ, "Gen", "ImplChars.v"), text)

def coq_make(target=None, timeout=1500):
    if not os.path.exists(os.path.join(COQ, "Makefile")) or \
       os.path.getmtime(os.path.join(COQ, "_CoqProject")) > os.path.getmtime(os.path.join(COQ, "Makefile")):
        rc, out = sh("coq_makefile -f _CoqProject -o Makefile", cwd=COQ)
        if rc != 0:
            raise BuildError("coq_makefile", out)
    cmd = "make -j16" + (" " + target if target else "")
    rc, out = sh("timeout %d %s" % (timeout, cmd), cwd=COQ, timeout=timeout + 60)
    return rc, out

def ocaml_build():
    src_dir = os.path.join(BUILD, "ocaml")
    drv_src = os.path.join(VERIF, "ocaml", "driver.ml")
    model_ml = os.path.join(src_dir, "model.ml")
    exe = model_bin()
    if os.path.exists(exe) and os.path.getmtime(exe) >= max(os.path.getmtime(model_ml), os.path.getmtime(drv_src)):
        return
    sh(["cp", drv_src, os.path.join(src_dir, "driver.ml")])
    rc, out = sh("ocamlfind ocamlopt -w -a model.mli model.ml driver.ml -o model_run", cwd=src_dir)
    if rc != 0:
        raise BuildError("ocaml", out)

def ensure_built(release=False, log=None):
    """Returns dict(coq_ok, coq_log). Raises BuildError if the impl or the model runner cannot be built."""
    os.makedirs(BUILD, exist_ok=True)
    os.makedirs(os.path.join(BUILD, "ocaml"), exist_ok=True)
    with open(os.path.join(BUILD, ".lock"), "w") as lk:
        fcntl.flock(lk, fcntl.LOCK_EX)
        t0 = time.time()
        cargo_build("debug")
        if release:
            cargo_build("release")
        rc, out = sh([impl_bin("debug"), "--dump-table"])
        if rc != 0:
            raise BuildError("dump-table", out)
        write_if_changed(table_path(), out)
        gen_impl_table()
        gen_doc_table()
        gen_impl_consts()
        gen_impl_chars()
        # the model and its extraction first: the correspondence must run even when a proof is broken
        rc, out = coq_make("Extract/Extract.vo")
        if rc != 0:
            raise BuildError("coq-model", out)
        ocaml_build()
        rc2, out2 = coq_make()
        return {"coq_ok": rc2 == 0, "coq_log": out2, "build_s": time.time() - t0}


# ---------- the tree this development was last validated against (all checks, all seeds, thorough runs): file -> sha256
def _source_files():
    out = [os.path.join(REPO, "Cargo.toml"), os.path.join(REPO, "Cargo.lock")]
    sd = os.path.join(REPO, "src")
    for root, _d, files in os.walk(sd):
        for f in sorted(files):
            if f.endswith(".rs"): out.append(os.path.join(root, f))
    return out

def source_hashes():
    import hashlib
    res = {}
    for f in _source_files():
        try: res[os.path.relpath(f, REPO)] = hashlib.sha256(open(f, "rb").read()).hexdigest()
        except OSError: pass
    return res

def source_changed():
    """files of /repo whose content differs from pinned_source.json (added, removed or edited); empty on the pinned tree"""
    try: pinned = json.load(open(os.path.join(VERIF, "pinned_source.json")))["files"]
    except Exception: return set()
    now = source_hashes()
    return {f for f in set(pinned) | set(now) if pinned.get(f) != now.get(f)}
