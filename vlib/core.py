"""Shared machinery: running both sides on the line protocol, proof audit, evidence, violations."""
import json, os, re, subprocess, sys, time, hashlib, tempfile
from concurrent.futures import ThreadPoolExecutor
from . import build
from .build import VERIF, COQ, BUILD

NPROC = 16

def hx(s):
    return s.encode("utf-8").hex()

def unhx(h):
    return bytes.fromhex(h).decode("utf-8", errors="replace")

# ---------------------------------------------------------------- runners
def _unlimit_stack():
    import resource
    try:
        resource.setrlimit(resource.RLIMIT_STACK, (resource.RLIM_INFINITY, resource.RLIM_INFINITY))
    except Exception:
        pass

def _run_shard(cmd, lines, timeout):
    data = ("\n".join(lines) + "\n").encode()
    is_model = "model_run" in cmd[0]
    try:
        # the extracted model recurses as deep as its input is long: give it the stack (the impl keeps the default)
        p = subprocess.run(cmd, input=data, stdout=subprocess.PIPE, stderr=subprocess.DEVNULL, timeout=timeout,
                           preexec_fn=_unlimit_stack if is_model else None,
                           env=dict(os.environ, OCAMLRUNPARAM="s=8M") if is_model else None)
        out = p.stdout.decode("utf-8", errors="replace").splitlines()
        return p.returncode, out
    except subprocess.TimeoutExpired as e:
        out = (e.stdout or b"").decode("utf-8", errors="replace").splitlines()
        return -999, out

def run_lines(cmd, lines, timeout=900, nshards=NPROC):
    """Runs protocol lines through `cmd` (sharded); returns {id: result-string}. A shard that dies (stack overflow,
    abort) is re-run line by line from the first missing id so that the crash is attributed: result 'ABORT'/'HANG'."""
    res = {}
    if not lines:
        return res
    nshards = max(1, min(nshards, len(lines) // 50 + 1))
    shards = [lines[i::nshards] for i in range(nshards)]
    def work(shard):
        local = {}
        pending = shard
        while pending:
            rc, out = _run_shard(cmd, pending, timeout)
            for l in out:
                i, _, r = l.partition(" ")
                local[i] = r
            done = len(out)
            if rc == 0 and done >= len(pending):
                break
            # died or hung at pending[done]
            if done < len(pending):
                bad = pending[done]
                bid = bad.split(" ", 1)[0]
                rc1, out1 = _run_shard(cmd, [bad], min(timeout, 120))
                if out1 and out1[0].startswith(bid + " "):
                    local[bid] = out1[0].partition(" ")[2]
                else:
                    local[bid] = "HANG" if rc1 == -999 else "ABORT"
                pending = pending[done + 1:]
            else:
                break
        return local
    with ThreadPoolExecutor(max_workers=nshards) as ex:
        for local in ex.map(work, shards):
            res.update(local)
    return res

def run_each(cmd, lines, timeout=120, workers=NPROC):
    """one process per line (deep / long inputs): a crash or a timeout is attributed to that line"""
    res = {}
    def work(line):
        cid = line.split(" ", 1)[0]
        rc, out = _run_shard(cmd, [line], timeout)
        if out and out[0].startswith(cid + " "):
            return cid, out[0].partition(" ")[2]
        return cid, ("HANG" if rc == -999 else "ABORT")
    with ThreadPoolExecutor(max_workers=workers) as ex:
        for cid, r in ex.map(work, lines):
            res[cid] = r
    return res

def run_impl(lines, profile="debug", isolate=False, timeout=900):
    cmd = [build.impl_bin(profile)] + (["--isolate"] if isolate else [])
    return run_lines(cmd, lines, timeout)

def run_model(lines, timeout=900):
    return run_lines([build.model_bin(), "--table", build.table_path()], lines, timeout)

class ThmRunner:
    """Runs the model with --thm: every parsed tree is followed by |P<premises>K<printer_tokens>, the two computable side
    conditions of the round-trip theorem (Props/C12.v C12_round_trip). The suffix is split off before the model output is
    compared with the implementation; the flags are kept for the theorem tie and for the evidence."""
    def __init__(self):
        self.flags = {}          # cid -> list of (P, K)
        self.stats = {"trees": 0, "premises_hold": 0, "printer_tokens_hold": 0, "premises_and_tokens": 0,
                      "lexically_sane_and_premises": 0}
    def run(self, lines, timeout=900):
        raw = run_lines([build.model_bin(), "--table", build.table_path(), "--thm"], lines, timeout)
        out = {}
        for cid, text in raw.items():
            parts = []
            fl = []
            for field in text.split(" "):
                if "|P" in field:
                    body, suf = field.rsplit("|", 1)
                    pk = (suf[1] == "1", suf[3] == "1")
                    sane = len(suf) > 5 and suf[5] == "1"
                    self.stats["lexically_sane_and_premises"] += pk[0] and sane
                    fl.append(pk)
                    self.stats["trees"] += 1
                    self.stats["premises_hold"] += pk[0]
                    self.stats["printer_tokens_hold"] += pk[1]
                    self.stats["premises_and_tokens"] += pk[0] and pk[1]
                    parts.append(body)
                else:
                    parts.append(field)
            out[cid] = " ".join(parts)
            self.flags[cid] = fl
        return out
    def broken(self, cid):
        """premises hold but the printer's text is not the token image the theorem speaks about"""
        return any(p and not k for p, k in self.flags.get(cid, []))

# ---------------------------------------------------------------- proof audit
FORBIDDEN = re.compile(r"\b(Admitted|admit|Axiom|Axioms|Parameter|Parameters|Conjecture|Conjectures|Abort All)\b|"
                       r"Unset\s+Guard\s+Checking|Unset\s+Positivity|Unset\s+Universe\s+Checking|bypass_check|"
                       r"Admit\s+Obligations|-type-in-type|-impredicative-set|native_compute")

def strip_comments(text):
    out = []
    depth = 0
    i = 0
    while i < len(text):
        if text.startswith("(*", i):
            depth += 1; i += 2
        elif text.startswith("*)", i) and depth > 0:
            depth -= 1; i += 2
        else:
            if depth == 0:
                out.append(text[i])
            i += 1
    return "".join(out)

def audit_sources():
    """grep of the whole development for anything that would declare an axiom or switch a kernel check off"""
    bad = []
    for root, _, files in os.walk(COQ):
        for f in files:
            if f.endswith(".v"):
                p = os.path.join(root, f)
                text = strip_comments(open(p).read())
                # Variable/Hypothesis outside a Section
                depth = 0
                for ln, line in enumerate(text.splitlines(), 1):
                    if re.match(r"\s*Section\b", line): depth += 1
                    if re.match(r"\s*End\b", line) and depth > 0: depth -= 1
                    if depth == 0 and re.match(r"\s*(Variable|Variables|Hypothesis|Hypotheses|Context)\b", line):
                        bad.append("%s:%d: %s" % (p, ln, line.strip()))
                    m = FORBIDDEN.search(line)
                    if m:
                        bad.append("%s:%d: %s" % (p, ln, line.strip()))
    for f in ("_CoqProject",):
        t = open(os.path.join(COQ, f)).read()
        if re.search(r"type-in-type|impredicative-set|-vos|-vok", t):
            bad.append(f + ": forbidden flag")
    return bad

ALLOWED_AXIOMS = set()   # the development is meant to be closed under the global context

def check_props(prop):
    """Re-compiles Props/<prop>.v (after make) to capture Check / Print Assumptions output.
    Returns dict(ok, theorems=[(name, assumptions)], log)."""
    path = os.path.join(COQ, "Props", prop + ".v")
    if not os.path.exists(path):
        return {"ok": False, "theorems": [], "log": "no Props file", "failed": "Props/%s.v missing" % prop}
    rc, out = build.sh("timeout 600 coqc -q -Q . EE Props/%s.v" % prop, cwd=COQ, timeout=700)
    src = strip_comments(open(path).read())
    stated = re.findall(r"^\s*(?:Theorem|Lemma|Corollary|Example)\s+(\w+)", src, re.M)
    printed = re.findall(r"Print\s+Assumptions\s+(\w+)", src)
    thms = []
    failed = None
    if rc != 0:
        m = re.search(r'File "([^"]+)", line (\d+)', out)
        failed = "coqc failed"
        if m:
            ln = int(m.group(2))
            # name of the enclosing statement
            lines = open(path).read().splitlines()
            name = None
            for k in range(min(ln, len(lines)) - 1, -1, -1):
                mm = re.match(r"\s*(?:Theorem|Lemma|Corollary|Example|Definition)\s+(\w+)", lines[k])
                if mm:
                    name = mm.group(1); break
            failed = "%s (Props/%s.v:%d)" % (name or "?", prop, ln)
        return {"ok": False, "theorems": [], "log": out[-3000:], "failed": failed, "stated": stated}
    # parse assumptions blocks in order
    blocks = re.split(r"(?=Closed under the global context|Axioms:)", out)
    results = []
    for b in blocks:
        if b.startswith("Closed under the global context"):
            results.append([])
        elif b.startswith("Axioms:"):
            ax = re.findall(r"^(\S+)\s*:", b[len("Axioms:"):], re.M)
            results.append(ax)
    ok = True
    missing = [t for t in stated if t not in printed]
    for name, ax in zip(printed, results):
        thms.append((name, ax))
        if any(a not in ALLOWED_AXIOMS for a in ax):
            ok = False; failed = "axioms under %s: %s" % (name, ax)
    if len(results) != len(printed):
        ok = False; failed = "Print Assumptions output count mismatch"
    if missing:
        ok = False; failed = "no Print Assumptions for " + ",".join(missing)
    return {"ok": ok, "theorems": thms, "log": out[-2000:], "failed": failed, "stated": stated}

def coqchk_props(prop):
    """thorough tier: the compiled Props/<prop>.vo and everything it depends on re-checked by the independent checker coqchk;
    returns (ok, summary). ok requires 'Axioms: <none>' and no type-in-type / unsafe fixpoint / assumed positivity."""
    rc, out = build.sh("timeout 1500 coqchk -o -silent -Q . EE EE.Props.%s" % prop, cwd=COQ, timeout=1600)
    tail = out[-1500:]
    ok = (rc == 0 and "Axioms: <none>" in out and "relying on type-in-type: <none>" in out
          and "unsafe (co)fixpoints: <none>" in out and "positivity is assumed: <none>" in out)
    return ok, " ".join(tail.split())[-400:]

# ---------------------------------------------------------------- known findings
def load_known():
    p = os.path.join(VERIF, "known_findings.json")
    if not os.path.exists(p):
        return []
    return json.load(open(p))

# ---------------------------------------------------------------- evidence / reporting
class Report:
    def __init__(self, prop, tier, seed):
        self.prop, self.tier, self.seed = prop, tier, seed
        self.t0 = time.time()
        self.violations = []       # (replay_path, suffix)
        self.known_lines = []
        self.coverage = {}
        self.assumptions = []
        self.n_replays = 0

    def replay_path(self, tag=""):
        self.n_replays += 1
        d = os.path.join(VERIF, "replays")
        os.makedirs(d, exist_ok=True)
        return os.path.join(d, "%s-%s-%d%s.case" % (self.prop, self.seed, self.n_replays, tag))

    def violation(self, header, lines, no_input=False):
        """header: dict of '# key: value' lines; lines: protocol lines replayed by --replay"""
        p = self.replay_path()
        with open(p, "w") as f:
            f.write("# property: %s\n" % self.prop)
            for k, v in header.items():
                f.write("# %s: %s\n" % (k, str(v).replace("\n", " ")[:2000]))
            for l in lines:
                f.write(l + "\n")
        self.violations.append((p, " no-failing-input-found" if no_input else ""))

    def known(self, text):
        if text not in self.known_lines:
            self.known_lines.append(text)

    def finish(self, level="proof"):
        ev = {
            "property_id": self.prop, "tier": self.tier, "seed": self.seed, "level": level,
            "coverage": self.coverage, "assumptions": self.assumptions,
            "wall_s": round(time.time() - self.t0, 2), "violations": len(self.violations),
        }
        # a replay of one stored case is not a run of the check: it must not overwrite the evidence of the last run
        if not getattr(self, "is_replay", False):
            os.makedirs(os.path.join(VERIF, "evidence"), exist_ok=True)
            with open(os.path.join(VERIF, "evidence", self.prop + ".json"), "w") as f:
                json.dump(ev, f, indent=1, ensure_ascii=True)
        for k in self.known_lines:
            print("KNOWN-FINDING: property=%s %s" % (self.prop, k))
        for p, suffix in self.violations[:20]:
            print("VIOLATION property=%s replay=%s%s" % (self.prop, p, suffix))
        sys.stdout.flush()
        return 1 if self.violations else 0

TRUSTED_BASE_COMMON = [
    "Coq 8.16.1 kernel (coqc; vm_compute used for generated-fact equalities and witnesses; native_compute not used)",
    "extraction to OCaml with ExtrOcamlBasic only (Extract Inductive for bool, option, unit, list, prod, sumbool, sumor; no Extract Constant) and ocaml/driver.ml (hex/UTF-8/number glue)",
    "harness/src (impl_run: canonical printing of the real crate's observables) and vlib/*.py (generators, comparison)",
    "translator of generated facts: hook dump_registries -> Gen/ImplTable.v, README.md table -> Gen/DocTable.v",
    "modelled not verified: rust_decimal 1.31.0, std String/char_indices slicing, HashMap, Mutex, OnceCell (DESIGN.md section 8)",
]
