"""Protocol values: parsing, exact comparison, comparison by numeric value (for results whose scale is unspecified)."""
from fractions import Fraction

class Cur:
    def __init__(self, s): self.s, self.p = s, 0
    def peek(self): return self.s[self.p] if self.p < len(self.s) else ""
    def eat(self, c):
        assert self.peek() == c, (self.s, self.p, c)
        self.p += 1
    def until(self, stops):
        st = self.p
        while self.p < len(self.s) and self.s[self.p] not in stops: self.p += 1
        return self.s[st:self.p]

def p_value(c):
    k = c.peek()
    if k == "N": c.p += 1; return ("N",)
    if k == "n":
        c.eat("n"); c.eat("("); sg = c.until(","); c.eat(","); m = c.until(","); c.eat(","); sc = c.until(")"); c.eat(")")
        return ("n", int(sg), int(m, 16), int(sc))
    if k == "s":
        c.eat("s"); c.eat("("); h = c.until(")"); c.eat(")"); return ("s", h)
    if k == "b":
        c.eat("b"); c.eat("("); h = c.until(")"); c.eat(")"); return ("b", h)
    if k == "l":
        c.eat("l"); c.eat("("); items = []
        if c.peek() == ")": c.eat(")")
        else:
            while True:
                items.append(p_value(c))
                if c.peek() == ";": c.eat(";")
                else: c.eat(")"); break
        return ("l", items)
    if k == "m":
        c.eat("m"); c.eat("("); items = []
        if c.peek() == ")": c.eat(")")
        else:
            while True:
                kk = p_value(c); c.eat("="); vv = p_value(c); items.append((kk, vv))
                if c.peek() == ";": c.eat(";")
                else: c.eat(")"); break
        return ("m", items)
    raise ValueError("bad value %r at %d" % (c.s, c.p))

def parse_value(s):
    return p_value(Cur(s))

def num_q(v):
    q = Fraction(v[2], 10 ** v[3])
    return -q if v[1] else q

def same_by_value(a, b):
    if a[0] != b[0]: return False
    if a[0] == "n": return num_q(a) == num_q(b)
    if a[0] == "l": return len(a[1]) == len(b[1]) and all(same_by_value(x, y) for x, y in zip(a[1], b[1]))
    if a[0] == "m": return len(a[1]) == len(b[1]) and all(same_by_value(x[0], y[0]) and same_by_value(x[1], y[1]) for x, y in zip(a[1], b[1]))
    return a == b

def mk_num(neg, mant, scale):
    return "n(%d,%x,%d)" % (1 if neg and mant else 0, mant, scale)

def dec_str(neg, mant, scale):
    """decimal literal text (non-negative part) for a (mantissa, scale)"""
    s = str(mant).rjust(scale + 1, "0")
    body = s if scale == 0 else s[:-scale] + "." + s[-scale:]
    return ("-" if neg and mant else "") + body

def split_exec(out):
    """'OK:<v>:L[..]:C{..}[:I|E]' -> dict(cls, value, log, ctx, flag)"""
    parts = out.split(":")
    cls = parts[0]
    d = {"cls": cls, "value": None, "log": None, "ctx": None, "flag": None}
    rest = parts[1:]
    if cls == "OK" and rest:
        d["value"] = rest[0]; rest = rest[1:]
    for r in rest:
        if r.startswith("L["): d["log"] = r
        elif r.startswith("C{") or r.startswith("C!"): d["ctx"] = r
        elif r in ("I", "E"): d["flag"] = r
    return d

def ctx_items(c):
    """'C{hex=value;hex=F3;...}' -> [(hexname, value-text)]"""
    body = c[2:-1]
    out = []
    cur = Cur(body)
    while cur.p < len(body):
        k = cur.until("="); cur.eat("=")
        st = cur.p
        if cur.peek() == "F":
            cur.until(";")
        else:
            p_value(cur)
        out.append((k, body[st:cur.p]))
        if cur.peek() == ";": cur.eat(";")
    return out

def log_items(l):
    """'L[h(v,v);h();...]' -> [(hid, [value-text, ...])]"""
    body = l[2:-1]
    out = []
    cur = Cur(body)
    while cur.p < len(body):
        h = int(cur.until("(")); cur.eat("(")
        args = []
        while cur.peek() != ")":
            st = cur.p
            p_value(cur)
            args.append(body[st:cur.p])
            if cur.peek() == ",": cur.eat(",")
        cur.eat(")")
        out.append((h, args))
        if cur.p < len(body) and cur.peek() == ";": cur.eat(";")
    return out

def exec_equal(impl, model):
    """compare one EXEC result; returns (equal, abstained)"""
    i, m = split_exec(impl), split_exec(model)
    if m["cls"] == "ABSTAIN":
        return True, True
    if i["cls"] != m["cls"]:
        return False, False
    if i["log"] != m["log"]:
        if m["flag"] != "I": return False, False
    if m["flag"] == "I":
        try:
            if i["value"] is not None and not same_by_value(parse_value(i["value"]), parse_value(m["value"])): return False, False
            ci, cm = ctx_items(i["ctx"] or "C{}"), ctx_items(m["ctx"] or "C{}")
            if len(ci) != len(cm): return False, False
            for (k1, v1), (k2, v2) in zip(ci, cm):
                if k1 != k2: return False, False
                if v1.startswith("F") or v2.startswith("F"):
                    if v1 != v2: return False, False
                elif not same_by_value(parse_value(v1), parse_value(v2)): return False, False
            return True, False
        except Exception:
            return False, False
    return (i["value"] == m["value"] and i["ctx"] == m["ctx"]), False
