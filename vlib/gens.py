"""Shared generators (DESIGN.md 4.3). Every random choice comes from the rng passed in."""
import itertools, random
from .core import hx

SPECIALS = list("+-*/^%&!=?:><|")
DELIMS = list("()[]{}")
WS = [" ", "\t", "\r", "\n"]
# one representative per character class the tokenizer distinguishes, plus words that exercise keyword lookup
SYMBOLS = SPECIALS + DELIMS + ["1", "0", ".", "e", "E", "\"", "'", ";", ",", " ", "\t", "\r", "\n",
          "a", "_", "Z", "é", "€", "\U0001F600", "#", "~", "@", "in", "not", "true", "False",
          "beginWith", "<<=", "AND",
          # Unicode White_Space / format characters that are NOT whitespace for this tokenizer (str::trim would strip them)
          "\u00a0", "\u000b", "\u000c", "\u2028", "\u3000", "\ufeff"]

def symbol_strings(symbols, maxlen):
    for n in range(0, maxlen + 1):
        for t in itertools.product(symbols, repeat=n):
            yield "".join(t)

def random_string(rng, maxlen=12, symbols=SYMBOLS):
    n = rng.randint(0, maxlen)
    return "".join(rng.choice(symbols) for _ in range(n))

def builtin_ops(table_path):
    infix, prefix, postfix, funcs = [], [], [], []
    for l in open(table_path):
        p = l.split()
        if not p: continue
        name = bytes.fromhex(p[1]).decode()
        if p[0] == "I": infix.append((name, int(p[2]), p[3] == "1", p[4] == "1"))
        elif p[0] == "P": prefix.append(name)
        elif p[0] == "S": postfix.append(name)
        elif p[0] == "F": funcs.append(name)
    return infix, prefix, postfix, funcs
