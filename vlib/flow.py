"""The per-property decision procedure of DESIGN.md 2.2, shared by all properties."""
import os, sys, time, json, random, collections
from . import build, core
from .core import Report

class Case:
    __slots__ = ("cid", "line", "meta", "gen")
    def __init__(self, cid, line, gen, meta=None):
        self.cid, self.line, self.gen, self.meta = cid, line, gen, meta

def mk_cases(gen_name, lines_with_meta, start=0):
    out = []
    for k, item in enumerate(lines_with_meta):
        if isinstance(item, tuple):
            ops, meta = item
        else:
            ops, meta = item, None
        cid = "%s%d" % (gen_name, start + k)
        out.append(Case(cid, cid + " " + ops, gen_name, meta))
    return out

def load_corpus(prop):
    d = os.path.join(build.VERIF, "corpus", prop)
    items = []
    if os.path.isdir(d):
        for f in sorted(os.listdir(d)):
            if f.endswith(".case"):
                for l in open(os.path.join(d, f)):
                    l = l.strip()
                    if l and not l.startswith("#"):
                        # corpus lines are "ops" (without id) or "id ops"
                        items.append(l.split(" ", 1)[1] if l.split(" ", 1)[0].startswith("corpus") else l)
    return items

def parse_replay(path):
    lines = []
    for l in open(path):
        l = l.rstrip("\n")
        if l and not l.startswith("#"):
            lines.append(l)
    return lines

def run_property(P, tier, seed, replay=None):
    """P: property module object with attributes
         prop, needs_release(bool), generate(tier, rng) -> list[Case], compare(case, impl, model) -> None|str,
         oracle(case, impl) -> (verdict, detail) with verdict in {'ok','violates','unknown'},
         known(case, impl, detail) -> None|str (text of the known finding),
         nontrivial(case) -> bool, describe_sample(case, impl) -> json-able, level_text..."""
    rep = Report(P.prop, tier, seed)
    rng = random.Random(seed)
    if replay or os.path.isdir(os.path.join(build.VERIF, "corpus", P.prop)):
        rep.is_replay = bool(replay)
        # a replay line whose generating case cannot be recovered carries no meta: describe it by its text
        def _guard(f, default):
            def g(*a):
                try: return f(*a)
                except Exception: return default(*a)
            return g
        P.show = _guard(P.show, lambda c: c.line[:300])
        P.classify = _guard(P.classify, lambda c, i: i.split(":", 1)[0][:10])
        P.nontrivial = _guard(P.nontrivial, lambda c, i: True)
        P.known = _guard(P.known, lambda c, i, d: None)
        P.compare = _guard(P.compare, lambda c, i, m: None)
    try:
        b = build.ensure_built(release=getattr(P, "needs_release", False))
    except build.BuildError as e:
        sys.stderr.write("BUILD FAILED at %s\n%s\n" % (e.stage, e.log[-4000:]))
        print("check %s: cannot build (%s); no verdict" % (P.prop, e.stage))
        rep.coverage = {"explanation": "build failed at %s" % e.stage, "evaluations": 0, "distinct_nontrivial": 0}
        rep.finish(level="other")
        return 2

    # ---------- 1. proof obligations
    audit = core.audit_sources()
    pr = core.check_props(P.prop)
    proof_ok = pr["ok"] and not audit and b["coq_ok"]
    broken = None
    if audit:
        broken = "source audit: " + "; ".join(audit[:5])
    elif not pr["ok"]:
        broken = "theorem " + str(pr.get("failed"))
    elif not b["coq_ok"]:
        # some other file of the development failed; only relevant if this property's file failed (checked above)
        proof_ok = True
    chk = None
    if tier == "thorough" and proof_ok and not replay:
        ok_chk, chk = core.coqchk_props(P.prop)
        if not ok_chk:
            proof_ok = False
            broken = "coqchk does not accept Props/%s.vo with no axioms: %s" % (P.prop, chk)

    # ---------- 2. correspondence + oracle
    if replay:
        lines = parse_replay(replay)
        # the oracle of most properties needs the generator's own description of the case (meta): regenerate the run the
        # replay file came from (its seed is in the header; quick tier first, then thorough) and pick the cases by their line
        rseed = seed
        for l in open(replay):
            if l.startswith("# seed:"):
                try: rseed = int(l.split(":", 1)[1].strip())
                except ValueError: pass
        want = {l.split(" ", 1)[1] if " " in l else l for l in lines}
        found = {}
        for t in ("quick", "thorough"):
            if len(found) == len(want): break
            try:
                for c in P.generate(t, random.Random(rseed)):
                    body = c.line.split(" ", 1)[1] if " " in c.line else c.line
                    if body in want and body not in found: found[body] = c
            except Exception:
                pass
        cases = []
        for l in lines:
            body = l.split(" ", 1)[1] if " " in l else l
            cases.append(found[body] if body in found else Case(l.split(" ", 1)[0], l, "replay"))
    else:
        cases = []
        corpus = load_corpus(P.prop)
        cases += mk_cases("corpus", corpus)
        cases += P.generate(tier, rng)
    t1 = time.time()
    disagreements, oracle_fail, known_hits = [], [], collections.Counter()
    hist = collections.Counter()
    distinct = set()
    def evaluate(P, cases):
        lines = [c.line for c in cases]
        impl = P.run_impl(lines) if hasattr(P, "run_impl") else core.run_impl(lines)
        model = P.run_model(lines) if hasattr(P, "run_model") else core.run_model(lines)
        for c in cases:
            i = impl.get(c.cid, "MISSING")
            m = model.get(c.cid, "MISSING")
            hist[P.classify(c, i)] += 1
            if P.nontrivial(c, i):
                distinct.add(c.line.split(" ", 1)[1])
            try:
                verdict, detail = P.oracle(c, i)
            except Exception as e:
                if not replay and c.gen != "corpus": raise
                verdict, detail = "unknown", "oracle not applicable to a bare replay / corpus line (%s)" % type(e).__name__
            k = None
            if verdict == "violates":
                k = P.known(c, i, detail)
                if k:
                    known_hits[k] += 1
                else:
                    oracle_fail.append((c, i, m, detail))
            d = P.compare(c, i, m)
            if d is not None:
                if verdict == "violates" and k:
                    continue          # the disagreement is the known finding itself
                if verdict != "violates":
                    disagreements.append((c, i, m, d))
        return impl
    impl = evaluate(P, cases)
    run_s = time.time() - t1
    ncases = len(cases)

    # ---------- 2b. escalation: the source differs from the tree this development was last validated against (pinned_source.json)
    # and the ordinary run found nothing - search further, with fresh generator seeds, before saying the property held
    Prep = P
    changed = build.source_changed()
    if os.environ.get("VERIF_FORCE_ESCALATE"): changed = changed | {"(forced by VERIF_FORCE_ESCALATE)"}
    escal = {"source_differs_from_pinned": sorted(changed), "extra_rounds": 0, "extra_cases": 0}
    if changed and tier == "quick" and not replay and not oracle_fail and not disagreements:
        budget = float(os.environ.get("VERIF_ESCALATE_S", "150"))
        t2 = time.time(); last_round = 0.0
        for k_ in range(1, 9):
            # (do not start a round that, going by the previous one, would end after the budget)
            if time.time() - t2 + last_round > budget: break
            t3 = time.time()
            P2 = type(P)()      # (property objects keep per-run state keyed by case id)
            extra = P2.generate("quick", random.Random(seed * 7919 + k_))
            extra_cases = [Case("x%d%s" % (k_, c.cid), "x%d%s %s" % (k_, c.cid, c.line.split(" ", 1)[1]), c.gen, c.meta) for c in extra]
            evaluate(P2, extra_cases)
            ncases += len(extra_cases)
            last_round = time.time() - t3
            escal["extra_rounds"] += 1; escal["extra_cases"] += len(extra_cases)
            if oracle_fail or disagreements:
                Prep = P2      # the object whose generator produced the failing case describes it
                break

    # every finding listed in known_findings.json for this property is reported on every run, observed or not
    listed = [k for k in core.load_known() if k.get("property") == P.prop and k.get("status") == "known"]
    for k in listed:
        n = sum(v for kk, v in known_hits.items() if kk.startswith(k["class"]))
        rep.known("%s: %s (observed in %d cases this run; witness: %s)" % (k["class"], k["what"][:160], n, k.get("witness", "-")[:80]))
    for k, n in known_hits.items():
        if not any(k.startswith(l["class"]) for l in listed):
            # a violation class the module recognises but the committed file does not list is NOT suppressed
            rep.violation({"seed": seed, "spec-verdict": "violation of an unlisted known class: " + k}, [], no_input=False)

    # ---------- 3. verdicts
    def cseed(c):
        # cases of an escalation round carry the round in their id: the replay regenerates them from that round's seed
        return seed * 7919 + int(c.cid[1]) if c.cid[:1] == "x" and c.cid[1:2].isdigit() else seed
    for (c, i, m, detail) in oracle_fail[:10]:
        c2, i2 = Prep.shrink(c, i) if hasattr(Prep, "shrink") else (c, i)
        rep.violation({"generator": c.gen, "seed": cseed(c), "impl-output": i2, "model-output": m,
                       "spec-verdict": "impl violates the property: " + detail,
                       "input": Prep.show(c2)}, [c2.line])
    if disagreements and not oracle_fail:
        # impl and model differ but the impl's own output satisfies the executable spec on every case of this run:
        # the correspondence is broken, no failing input was found
        c, i, m, d = disagreements[0]
        rep.violation({"generator": c.gen, "seed": cseed(c), "impl-output": i, "model-output": m,
                       "unchecked": "corr:%s:%s" % (P.prop, d), "input": Prep.show(c),
                       "note": "%d disagreeing cases; spec oracle found no violation in %d impl outputs" % (len(disagreements), ncases)},
                      [x[0].line for x in disagreements[:20]], no_input=True)
    if not proof_ok and not oracle_fail and not (disagreements):
        rep.violation({"unchecked": broken, "seed": seed,
                       "note": "proof obligation no longer checks; spec oracle found no violation in %d impl outputs" % ncases,
                       "coq-log": pr.get("log", "")[-1500:]}, [], no_input=True)
    elif not proof_ok and oracle_fail:
        pass  # already reported with a failing input

    # ---------- 4. evidence
    samples = []
    for c in cases[:: max(1, len(cases) // 6)][:6]:
        samples.append({"input": P.show(c), "impl": impl.get(c.cid, "MISSING")[:300]})
    thms = pr.get("theorems", [])
    rep.coverage = {
        "obligations": max(1, len(pr.get("stated", [])) ),
        "discharged": len(thms) if proof_ok else 0,
        "checker_cmd": "make -j16 (coq_makefile, full .vo build) && coqc -Q . EE Props/%s.v ; source audit grep" % P.prop,
        "trusted_base": core.TRUSTED_BASE_COMMON + getattr(P, "trusted_extra", []),
        "theorems": [{"name": n, "assumptions": a or "Closed under the global context"} for n, a in thms],
        "proof_status": "all obligations check" if proof_ok else "BROKEN: %s" % broken,
        "coqchk": chk if chk else "not run in this tier (thorough only)",
        "evaluations": ncases,
        "distinct_nontrivial": len(distinct),
        "rule": P.rule,
        "samples": samples,
        "traces_validated_against_impl": ncases,
        "disagreements_checked": len(disagreements) + len(oracle_fail),
        "outcome_histogram": dict(hist),
        "generator_histogram": dict(collections.Counter(c.gen for c in cases)),
        "known_findings_reported": dict(known_hits),
        "exhaustive": False,
        "run_s": round(run_s, 2), "build_s": round(b["build_s"], 2),
        "escalation": escal,
    }
    if hasattr(P, "extra_coverage"):
        rep.coverage.update(P.extra_coverage())
    rep.assumptions = getattr(P, "assumptions", [])
    return rep.finish("proof")
